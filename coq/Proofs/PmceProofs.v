(* Proofs about Model/Pmce.v: negotiation soundness (general + exhaustive lattice sweep), answer-within-offer,
   client rejection, handle typestate, losslessness under the codec stream law, doNotCompress, RSV rejection. *)
From Coq Require Import ZArith NArith List Bool String Ascii Lia.
From AV Require Import Gen.PmceConsts Model.Pmce.
Import ListNotations.
Open Scope Z_scope.

(* ------------------------------------------------------------------------------------------------ *)
(** * facts about the GENERATED permissible sets (re-proved against what the code says now) *)

Lemma permissible_In l z : permissible l z = true <-> In z l.
Proof.
  unfold permissible. rewrite existsb_exists. split.
  - intros [x [Hin Heq]]. apply Z.eqb_eq in Heq. now subst.
  - intros H. exists z. split; [assumption | apply Z.eqb_refl].
Qed.

Lemma window_range_check :
  forallb (fun w => (0 <? w) && (w <=? default_window_bits)) window_permissible = true.
Proof. vm_compute. reflexivity. Qed.

Lemma window_range w : permissible window_permissible w = true -> 0 < w <= default_window_bits.
Proof.
  intros H. apply permissible_In in H.
  pose proof (proj1 (forallb_forall _ _) window_range_check w H) as Hc.
  apply andb_true_iff in Hc. destruct Hc as [H1 H2].
  apply Z.ltb_lt in H1. apply Z.leb_le in H2. lia.
Qed.

Lemma default_window_permissible : permissible window_permissible default_window_bits = true.
Proof. vm_compute. reflexivity. Qed.

Lemma default_mem_permissible : permissible mem_permissible default_mem_level = true.
Proof. vm_compute. reflexivity. Qed.

Lemma mem_nonzero_check : forallb (fun m => negb (m =? 0)) mem_permissible = true.
Proof. vm_compute. reflexivity. Qed.

Lemma mem_nonzero m : permissible mem_permissible m = true -> m <> 0.
Proof.
  intros H. apply permissible_In in H.
  pose proof (proj1 (forallb_forall _ _) mem_nonzero_check m H) as Hc.
  apply negb_true_iff in Hc. apply Z.eqb_neq in Hc. assumption.
Qed.

Lemma level_range_check :
  forallb (fun w => (0 <? w) && (w <=? default_compress_level)) level_permissible = true.
Proof. vm_compute. reflexivity. Qed.

(* ------------------------------------------------------------------------------------------------ *)
(** * constructor validity *)

Definition d_offer_ok (o : d_offer) : Prop :=
  d_offer_ctor (o_acc_nct o) (o_acc_mwb o) (o_req_nct o) (o_req_mwb o) = Ok o.
Definition d_accept_ok (a : d_accept) : Prop :=
  d_accept_ctor (a_offer a) (a_req_nct a) (a_req_mwb a) (a_nct a) (a_wbits a) (a_mem a) (a_maxmsg a) = Ok a.
Definition d_raccept_ok (ra : d_raccept) : Prop :=
  d_raccept_ctor (ra_response ra) (ra_nct ra) (ra_wbits ra) (ra_mem ra) (ra_maxmsg ra) = Ok ra.

Lemma d_offer_ctor_fields an am rn rm o :
  d_offer_ctor an am rn rm = Ok o ->
  o = {| o_acc_nct := an; o_acc_mwb := am; o_req_nct := rn; o_req_mwb := rm |} /\
  (rm = 0 \/ permissible window_permissible rm = true).
Proof.
  unfold d_offer_ctor. destruct (rm =? 0) eqn:E0; cbn [negb andb].
  - intros H. inversion H. split; [reflexivity|]. left. now apply Z.eqb_eq.
  - destruct (permissible window_permissible rm) eqn:Ep; cbn [negb]; intros H; inversion H.
    split; [reflexivity | now right].
Qed.

Lemma d_offer_ok_inv o : d_offer_ok o -> o_req_mwb o = 0 \/ permissible window_permissible (o_req_mwb o) = true.
Proof. intros H. apply d_offer_ctor_fields in H. tauto. Qed.

(* everything the OfferAccept constructor guarantees *)
Record d_accept_facts (a : d_accept) : Prop := {
  af_req_nct : a_req_nct a = true -> o_acc_nct (a_offer a) = true;
  af_req_mwb : a_req_mwb a = 0 \/ (permissible window_permissible (a_req_mwb a) = true /\ o_acc_mwb (a_offer a) = true);
  af_nct : a_nct a = Some false -> o_req_nct (a_offer a) = false;
  af_wbits : forall w, a_wbits a = Some w ->
      permissible window_permissible w = true /\ (o_req_mwb (a_offer a) = 0 \/ w <= o_req_mwb (a_offer a));
  af_mem : forall m, a_mem a = Some m -> permissible mem_permissible m = true }.

Lemma d_accept_ok_inv a : d_accept_ok a -> d_accept_facts a.
Proof.
  unfold d_accept_ok, d_accept_ctor. intros H.
  destruct (a_req_nct a && negb (o_acc_nct (a_offer a))) eqn:E1; [discriminate|].
  destruct (negb (a_req_mwb a =? 0) && negb (permissible window_permissible (a_req_mwb a))) eqn:E2; [discriminate|].
  destruct (negb (a_req_mwb a =? 0) && negb (o_acc_mwb (a_offer a))) eqn:E3; [discriminate|].
  destruct (match a_nct a with Some v => o_req_nct (a_offer a) && negb v | None => false end) eqn:E4; [discriminate|].
  destruct (match a_wbits a with Some w => negb (permissible window_permissible w) | None => false end) eqn:E5; [discriminate|].
  destruct (match a_wbits a with Some w => negb (o_req_mwb (a_offer a) =? 0) && (w >? o_req_mwb (a_offer a)) | None => false end) eqn:E6; [discriminate|].
  destruct (match a_mem a with Some m => negb (permissible mem_permissible m) | None => false end) eqn:E7; [discriminate|].
  clear H. constructor.
  - intros Hr. rewrite Hr in E1. cbn in E1. now apply negb_false_iff in E1.
  - destruct (a_req_mwb a =? 0) eqn:E0; [left; now apply Z.eqb_eq|]. right. cbn in E2, E3.
    apply negb_false_iff in E2. apply negb_false_iff in E3. now split.
  - intros Hn. rewrite Hn in E4. destruct (o_req_nct (a_offer a)); [discriminate E4 | reflexivity].
  - intros w Hw. rewrite Hw in E5, E6. apply negb_false_iff in E5. split; [assumption|].
    destruct (o_req_mwb (a_offer a) =? 0) eqn:E0; [left; now apply Z.eqb_eq|]. right. cbn in E6.
    rewrite Z.gtb_ltb in E6. apply Z.ltb_ge in E6. lia.
  - intros m Hm. rewrite Hm in E7. now apply negb_false_iff in E7.
Qed.

Record d_raccept_facts (ra : d_raccept) : Prop := {
  rf_nct : ra_nct ra = Some false -> r_client_nct (ra_response ra) = false;
  rf_wbits : forall w, ra_wbits ra = Some w ->
      permissible window_permissible w = true /\ (r_client_mwb (ra_response ra) = 0 \/ w <= r_client_mwb (ra_response ra));
  rf_mem : forall m, ra_mem ra = Some m -> permissible mem_permissible m = true }.

Lemma d_raccept_ok_inv ra : d_raccept_ok ra -> d_raccept_facts ra.
Proof.
  unfold d_raccept_ok, d_raccept_ctor. intros H.
  destruct (match ra_nct ra with Some v => r_client_nct (ra_response ra) && negb v | None => false end) eqn:E4; [discriminate|].
  destruct (match ra_wbits ra with Some w => negb (permissible window_permissible w) | None => false end) eqn:E5; [discriminate|].
  destruct (match ra_wbits ra with Some w => negb (r_client_mwb (ra_response ra) =? 0) && (w >? r_client_mwb (ra_response ra)) | None => false end) eqn:E6; [discriminate|].
  destruct (match ra_mem ra with Some m => negb (permissible mem_permissible m) | None => false end) eqn:E7; [discriminate|].
  clear H. constructor.
  - intros Hn. rewrite Hn in E4. destruct (r_client_nct (ra_response ra)); [discriminate E4 | reflexivity].
  - intros w Hw. rewrite Hw in E5, E6. apply negb_false_iff in E5. split; [assumption|].
    destruct (r_client_mwb (ra_response ra) =? 0) eqn:E0; [left; now apply Z.eqb_eq|]. right. cbn in E6.
    rewrite Z.gtb_ltb in E6. apply Z.ltb_ge in E6. lia.
  - intros m Hm. rewrite Hm in E7. now apply negb_false_iff in E7.
Qed.

(* ------------------------------------------------------------------------------------------------ *)
(** * the client parses the server's own extension string back to what the server meant *)

(* the one thing the theorems need from Python's int(): it inverts f"{n}" on the permissible values *)
Definition int_law (py_int : string -> option Z) (l : list Z) : Prop :=
  forall z, In z l -> py_int (dec_string z) = Some z.

Lemma ascii_int_law_window : forallb (fun z => match ascii_int (dec_string z) with Some y => y =? z | None => false end)
                                     window_permissible = true.
Proof. vm_compute. reflexivity. Qed.
Lemma ascii_int_law_level : forallb (fun z => match ascii_int (dec_string z) with Some y => y =? z | None => false end)
                                    level_permissible = true.
Proof. vm_compute. reflexivity. Qed.

Lemma ascii_int_satisfies_law_window : int_law ascii_int window_permissible.
Proof.
  intros z Hz. pose proof (proj1 (forallb_forall _ _) ascii_int_law_window z Hz) as H.
  cbv beta in H. destruct (ascii_int (dec_string z)); [|discriminate H]. apply Z.eqb_eq in H. now subst.
Qed.
Lemma ascii_int_satisfies_law_level : int_law ascii_int level_permissible.
Proof.
  intros z Hz. pose proof (proj1 (forallb_forall _ _) ascii_int_law_level z Hz) as H.
  cbv beta in H. destruct (ascii_int (dec_string z)); [|discriminate H]. apply Z.eqb_eq in H. now subst.
Qed.

Section Roundtrip.
  Variable py_int : string -> option Z.
  Hypothesis Hint : int_law py_int window_permissible.

  Lemma int_in_dec w : permissible window_permissible w = true ->
    int_in py_int window_permissible (VStr (dec_string w)) = Ok w.
  Proof.
    intros Hp. unfold int_in, int_of_pval. rewrite (Hint w) by (now apply permissible_In). now rewrite Hp.
  Qed.

  (* PerMessageDeflateResponse.parse(params(accept.get_extension_string())) *)
  Lemma d_response_roundtrip a :
    d_offer_ok (a_offer a) -> d_accept_ok a ->
    d_response_parse py_int (params_of_tokens (d_accept_string a)) =
      Ok {| r_client_mwb := a_req_mwb a; r_client_nct := a_req_nct a;
            r_server_mwb := o_req_mwb (a_offer a); r_server_nct := o_req_nct (a_offer a) |}.
  Proof.
    intros Ho Ha. apply d_offer_ok_inv in Ho. apply d_accept_ok_inv in Ha. destruct Ha as [_ Hmwb _ _ _].
    unfold d_accept_string, d_response_parse.
    assert (Hs : o_req_mwb (a_offer a) <> 0 -> permissible window_permissible (o_req_mwb (a_offer a)) = true) by tauto.
    assert (Hc : a_req_mwb a <> 0 -> permissible window_permissible (a_req_mwb a) = true) by tauto.
    clear Ho Hmwb.
    destruct (o_req_nct (a_offer a)); destruct (o_req_mwb (a_offer a) =? 0) eqn:Es;
      destruct (a_req_nct a); destruct (a_req_mwb a =? 0) eqn:Ec;
      try (apply Z.eqb_eq in Es; rewrite Es); try (apply Z.eqb_eq in Ec; rewrite Ec);
      try (apply Z.eqb_neq in Es; specialize (Hs Es)); try (apply Z.eqb_neq in Ec; specialize (Hc Ec));
      cbn [negb app params_of_tokens fold_left params_add pkey_eqb fst snd tok_val d_response_parse_loop single bind flag];
      rewrite ?int_in_dec by assumption; cbn [bind]; rewrite ?int_in_dec by assumption; cbn [bind]; reflexivity.
  Qed.

  (* PerMessageDeflateOffer.parse(params(offer.get_extension_string())) : what the server learns of the offer.
     accept_no_context_takeover is always True on the server side (the parse default). *)
  Lemma d_offer_roundtrip o :
    d_offer_ok o ->
    d_offer_parse py_int (params_of_tokens (d_offer_string o)) =
      Ok {| o_acc_nct := true; o_acc_mwb := o_acc_mwb o; o_req_nct := o_req_nct o; o_req_mwb := o_req_mwb o |}.
  Proof.
    intros Ho. apply d_offer_ok_inv in Ho. unfold d_offer_string, d_offer_parse.
    assert (Hs : o_req_mwb o <> 0 -> permissible window_permissible (o_req_mwb o) = true) by tauto. clear Ho.
    destruct (o_acc_nct o); destruct (o_acc_mwb o); destruct (o_req_nct o); destruct (o_req_mwb o =? 0) eqn:Es;
      try (apply Z.eqb_eq in Es; rewrite Es); try (apply Z.eqb_neq in Es; specialize (Hs Es));
      cbn [negb app params_of_tokens fold_left params_add pkey_eqb fst snd tok_val d_offer_parse_loop single bind flag];
      rewrite ?int_in_dec by assumption; cbn [bind];
      unfold d_offer_ctor; cbn [Z.eqb negb andb]; try reflexivity;
      (apply Z.eqb_neq in Es; rewrite Es; cbn [negb andb]; rewrite Hs; reflexivity).
  Qed.
End Roundtrip.

(* ------------------------------------------------------------------------------------------------ *)
(** * negotiation soundness, general *)

(* what the two ends need of each other, per direction (zlib: inflate's window must be at least deflate's;
   a decompressor that is recreated per message needs a compressor that is, too) *)
Record direction_ok (comp decomp : d_settings) : Prop := {
  dir_window : comp_window comp <= decomp_window decomp;
  dir_nct : decomp_nct decomp = true -> comp_nct comp = true;
  dir_comp_w_perm : permissible window_permissible (comp_window comp) = true;
  dir_decomp_w_perm : permissible window_permissible (decomp_window decomp) = true;
  dir_mem_perm : permissible mem_permissible (s_mem comp) = true }.

Lemma norm_window_perm w :
  (w = 0 \/ permissible window_permissible w = true) ->
  permissible window_permissible (if w =? 0 then default_window_bits else w) = true.
Proof.
  intros [->|H]; [apply default_window_permissible|].
  destruct (w =? 0) eqn:E; [apply default_window_permissible | assumption].
Qed.

Lemma norm_mem_perm m :
  (forall x, m = Some x -> permissible mem_permissible x = true) ->
  permissible mem_permissible (match m with Some x => if x =? 0 then default_mem_level else x | None => default_mem_level end) = true.
Proof.
  intros H. destruct m as [x|]; [|apply default_mem_permissible].
  destruct (x =? 0); [apply default_mem_permissible | now apply H].
Qed.

Lemma negotiation_sound_general a ra :
  d_offer_ok (a_offer a) -> d_accept_ok a -> d_raccept_ok ra ->
  ra_response ra = {| r_client_mwb := a_req_mwb a; r_client_nct := a_req_nct a;
                      r_server_mwb := o_req_mwb (a_offer a); r_server_nct := o_req_nct (a_offer a) |} ->
  let s := d_from_offer_accept true a in
  let c := d_from_response_accept false ra in
  direction_ok s c /\ direction_ok c s.
Proof.
  intros Ho Ha Hra Hresp. apply d_offer_ok_inv in Ho. apply d_accept_ok_inv in Ha. apply d_raccept_ok_inv in Hra.
  destruct Ha as [_ Hamwb Hanct Hawb Hamem]. destruct Hra as [Hrnct Hrwb Hrmem].
  rewrite Hresp in Hrnct, Hrwb. cbn [r_client_nct r_client_mwb] in Hrnct, Hrwb.
  cbv zeta. unfold d_from_offer_accept, d_from_response_accept. rewrite Hresp.
  cbn [r_client_nct r_client_mwb r_server_mwb r_server_nct].
  split; constructor; unfold comp_window, decomp_window, comp_nct, decomp_nct, d_pmce;
    cbn [s_is_server s_server_mwb s_client_mwb s_server_nct s_client_nct s_mem].
  - (* server -> client windows *)
    destruct (a_wbits a) as [w|] eqn:Ew.
    + destruct (Hawb w eq_refl) as [Hp Hle]. pose proof (window_range w Hp) as Hr.
      replace (w =? 0) with false by (symmetry; apply Z.eqb_neq; lia).
      destruct (o_req_mwb (a_offer a) =? 0) eqn:E0; [lia|]. apply Z.eqb_neq in E0. lia.
    + lia.
  - destruct (a_nct a) as [[|]|] eqn:En; [reflexivity| |tauto].
    intros Hreq. rewrite (Hanct eq_refl) in Hreq. discriminate.
  - apply norm_window_perm. destruct (a_wbits a) as [w|] eqn:Ew; [right; apply (Hawb w eq_refl)|assumption].
  - apply norm_window_perm. assumption.
  - apply norm_mem_perm. assumption.
  - (* client -> server windows *)
    destruct (ra_wbits ra) as [w|] eqn:Ew.
    + destruct (Hrwb w eq_refl) as [Hp Hle]. pose proof (window_range w Hp) as Hr.
      replace (w =? 0) with false by (symmetry; apply Z.eqb_neq; lia).
      destruct (a_req_mwb a =? 0) eqn:E0; [lia|]. apply Z.eqb_neq in E0. lia.
    + lia.
  - destruct (ra_nct ra) as [[|]|] eqn:En; [reflexivity| |tauto].
    intros Hreq. rewrite (Hrnct eq_refl) in Hreq. discriminate.
  - apply norm_window_perm. destruct (ra_wbits ra) as [w|] eqn:Ew; [right; apply (Hrwb w eq_refl)|tauto].
  - apply norm_window_perm. tauto.
  - apply norm_mem_perm. assumption.
Qed.

(* the statement over the real pipeline: the client's settings come from PARSING the server's string *)
Lemma negotiation_sound py_int a ra :
  int_law py_int window_permissible ->
  d_offer_ok (a_offer a) -> d_accept_ok a -> d_raccept_ok ra ->
  d_response_parse py_int (params_of_tokens (d_accept_string a)) = Ok (ra_response ra) ->
  let s := d_from_offer_accept true a in
  let c := d_from_response_accept false ra in
  direction_ok s c /\ direction_ok c s.
Proof.
  intros Hint Ho Ha Hra Hparse. rewrite (d_response_roundtrip py_int Hint a Ho Ha) in Hparse.
  inversion Hparse as [Hresp]. apply negotiation_sound_general; auto.
Qed.

Lemma response_always_parses py_int a :
  int_law py_int window_permissible -> d_offer_ok (a_offer a) -> d_accept_ok a ->
  exists r, d_response_parse py_int (params_of_tokens (d_accept_string a)) = Ok r.
Proof. intros Hint Ho Ha. eexists. apply d_response_roundtrip; assumption. Qed.

(* ------------------------------------------------------------------------------------------------ *)
(** * the same, as an exhaustive sweep inside Coq over the generated lattice *)

Lemma forallb_In {A} (f : A -> bool) (l : list A) (x : A) : forallb f l = true -> In x l -> f x = true.
Proof. intros H Hin. exact (proj1 (forallb_forall f l) H x Hin). Qed.

Lemma sweep_offer_eq o : sweep_offer o = negb (d_offer_okb o) || forallb sweep_accept (all_accepts o).
Proof. reflexivity. Qed.
Lemma sweep_accept_eq a : sweep_accept a =
  negb (d_accept_okb a) ||
  match d_response_parse ascii_int (params_of_tokens (d_accept_string a)) with
  | Raise _ => false
  | Ok r => forallb (sweep_point a) (all_raccepts r)
  end.
Proof. reflexivity. Qed.
Lemma sweep_point_eq a ra : sweep_point a ra =
  negb (d_raccept_okb ra) ||
  (direction_okb (d_from_offer_accept true a) (d_from_response_accept false ra) &&
   direction_okb (d_from_response_accept false ra) (d_from_offer_accept true a)).
Proof. reflexivity. Qed.

Lemma lattice_sweep_true : forallb sweep_offer all_offers = true.
Proof. vm_compute. reflexivity. Qed. (*SWEEP*)

Lemma direction_okb_sound comp decomp : direction_okb comp decomp = true -> direction_ok comp decomp.
Proof.
  unfold direction_okb. intros H.
  repeat (apply andb_true_iff in H; destruct H as [H ?]).
  constructor; try assumption.
  - now apply Z.leb_le.
  - intros Hd. rewrite Hd in *. assumption.
Qed.

Lemma lattice_sweep_lifted o a r ra :
  In o all_offers -> d_offer_okb o = true ->
  In a (all_accepts o) -> d_accept_okb a = true ->
  d_response_parse ascii_int (params_of_tokens (d_accept_string a)) = Ok r ->
  In ra (all_raccepts r) -> d_raccept_okb ra = true ->
  let s := d_from_offer_accept true a in
  let c := d_from_response_accept false ra in
  direction_ok s c /\ direction_ok c s.
Proof.
  intros Ho Hok Ha Hak Hp Hra Hrak.
  pose proof (forallb_In _ _ o lattice_sweep_true Ho) as H1. rewrite sweep_offer_eq in H1.
  rewrite Hok in H1. cbn [negb orb] in H1.
  pose proof (forallb_In _ _ a H1 Ha) as H2. rewrite sweep_accept_eq in H2.
  rewrite Hak, Hp in H2. cbn [negb orb] in H2.
  pose proof (forallb_In _ _ ra H2 Hra) as H3. rewrite sweep_point_eq in H3.
  rewrite Hrak in H3. cbn [negb orb] in H3.
  apply andb_true_iff in H3. destruct H3 as [H3 H4].
  split; apply direction_okb_sound; assumption.
Qed.

(* the enumeration misses no constructor-valid offer *)
Lemma In_bools b : In b lat_bools. Proof. destruct b; cbn; auto. Qed.
Lemma In_bopt b : In b lat_bopt. Proof. destruct b as [[|]|]; cbn; auto. Qed.
Lemma In_wz w : w = 0 \/ permissible window_permissible w = true -> In w lat_wz.
Proof. intros [->|H]; [now left | right; now apply permissible_In]. Qed.
Lemma In_wopt w : (forall x, w = Some x -> permissible window_permissible x = true) -> In w lat_wopt.
Proof.
  intros H. destruct w as [x|]; [|now left]. right. apply in_map. apply permissible_In. now apply H.
Qed.

Lemma all_offers_complete o : d_offer_ok o -> In o all_offers.
Proof.
  intros H. apply d_offer_ok_inv in H. destruct o as [an am rn rm]. cbn [o_req_mwb] in H. unfold all_offers.
  apply in_flat_map. exists an. split; [apply In_bools|].
  apply in_flat_map. exists am. split; [apply In_bools|].
  apply in_flat_map. exists rn. split; [apply In_bools|].
  apply in_map_iff. exists rm. split; [reflexivity | now apply In_wz].
Qed.

Lemma all_accepts_complete a :
  d_accept_ok a -> a_mem a = None -> a_maxmsg a = None -> In a (all_accepts (a_offer a)).
Proof.
  intros H Hm Hx. apply d_accept_ok_inv in H. destruct H as [_ Hmwb _ Hwb _].
  destruct a as [o rn rm nct wb mem mx]. cbn [a_offer a_req_nct a_req_mwb a_nct a_wbits a_mem a_maxmsg] in *. subst mem mx. unfold all_accepts.
  apply in_flat_map. exists rn. split; [apply In_bools|].
  apply in_flat_map. exists rm. split; [apply In_wz; tauto|].
  apply in_flat_map. exists nct. split; [apply In_bopt|].
  apply in_map_iff. exists wb. split; [reflexivity|]. apply In_wopt. intros x Hx. now apply Hwb.
Qed.

Lemma all_raccepts_complete ra :
  d_raccept_ok ra -> ra_mem ra = None -> ra_maxmsg ra = None -> In ra (all_raccepts (ra_response ra)).
Proof.
  intros H Hm Hx. apply d_raccept_ok_inv in H. destruct H as [_ Hwb _].
  destruct ra as [r nct wb mem mx]. cbn [ra_response ra_nct ra_wbits ra_mem ra_maxmsg] in *. subst mem mx. unfold all_raccepts.
  apply in_flat_map. exists nct. split; [apply In_bopt|].
  apply in_map_iff. exists wb. split; [reflexivity|]. apply In_wopt. intros x Hx. now apply Hwb.
Qed.

Lemma d_offer_okb_iff o : d_offer_okb o = true <-> d_offer_ok o.
Proof.
  unfold d_offer_okb, d_offer_ok. destruct o as [an am rn rm]. cbn [o_acc_nct o_acc_mwb o_req_nct o_req_mwb].
  unfold d_offer_ctor. destruct (negb (rm =? 0) && negb (permissible window_permissible rm)); cbn; split; congruence.
Qed.
Lemma d_accept_okb_iff a : d_accept_okb a = true <-> d_accept_ok a.
Proof.
  unfold d_accept_okb, d_accept_ok. destruct a as [o rn rm nct wb mem mx].
  cbn [a_offer a_req_nct a_req_mwb a_nct a_wbits a_mem a_maxmsg]. unfold d_accept_ctor.
  repeat match goal with |- context [if ?c then _ else _] => destruct c end; cbn; split; congruence.
Qed.
Lemma d_raccept_okb_iff ra : d_raccept_okb ra = true <-> d_raccept_ok ra.
Proof.
  unfold d_raccept_okb, d_raccept_ok. destruct ra as [r nct wb mem mx].
  cbn [ra_response ra_nct ra_wbits ra_mem ra_maxmsg]. unfold d_raccept_ctor.
  repeat match goal with |- context [if ?c then _ else _] => destruct c end; cbn; split; congruence.
Qed.

(* without overrides the two settings objects agree on all four parameters *)
Lemma negotiation_agree_no_override a ra :
  ra_response ra = {| r_client_mwb := a_req_mwb a; r_client_nct := a_req_nct a;
                      r_server_mwb := o_req_mwb (a_offer a); r_server_nct := o_req_nct (a_offer a) |} ->
  a_nct a = None -> a_wbits a = None -> ra_nct ra = None -> ra_wbits ra = None ->
  let s := d_from_offer_accept true a in
  let c := d_from_response_accept false ra in
  s_server_nct s = s_server_nct c /\ s_client_nct s = s_client_nct c /\
  s_server_mwb s = s_server_mwb c /\ s_client_mwb s = s_client_mwb c.
Proof.
  intros Hr H1 H2 H3 H4. cbv zeta. unfold d_from_offer_accept, d_from_response_accept.
  rewrite Hr, H1, H2, H3, H4. cbn. auto.
Qed.

(* ------------------------------------------------------------------------------------------------ *)
(** * the server's answer stays within the client's offer *)

Lemma in_opt {A} (b : bool) (x y : A) : In y (if b then [x] else []) <-> b = true /\ y = x.
Proof. destruct b; cbn; intuition congruence. Qed.

Lemma negb_eqb0 z : negb (z =? 0) = true <-> z <> 0.
Proof. rewrite negb_true_iff. apply Z.eqb_neq. Qed.

Lemma d_accept_string_In a k v :
  In (k, v) (d_accept_string a) <->
  (o_req_nct (a_offer a) = true /\ (k, v) = (KServerNCT, None)) \/
  (o_req_mwb (a_offer a) <> 0 /\ (k, v) = (KServerMWB, Some (dec_string (o_req_mwb (a_offer a))))) \/
  (a_req_nct a = true /\ (k, v) = (KClientNCT, None)) \/
  (a_req_mwb a <> 0 /\ (k, v) = (KClientMWB, Some (dec_string (a_req_mwb a)))).
Proof. unfold d_accept_string. rewrite !in_app_iff, !in_opt, !negb_eqb0. tauto. Qed.

Lemma d_accept_string_NoDup a : NoDup (map fst (d_accept_string a)).
Proof.
  unfold d_accept_string.
  destruct (o_req_nct (a_offer a)); destruct (negb (o_req_mwb (a_offer a) =? 0));
    destruct (a_req_nct a); destruct (negb (a_req_mwb a =? 0)); cbn [app map fst];
    repeat (constructor; [cbn [In]; intuition discriminate|]); constructor.
Qed.

Lemma answer_within_offer a :
  d_offer_ok (a_offer a) -> d_accept_ok a ->
  let o := a_offer a in
  let toks := d_accept_string a in
  let s := d_from_offer_accept true a in
  (forall v, In (KClientMWB, v) toks ->
      o_acc_mwb o = true /\ v = Some (dec_string (a_req_mwb a)) /\ permissible window_permissible (a_req_mwb a) = true) /\
  (forall v, In (KClientNCT, v) toks -> o_acc_nct o = true /\ v = None) /\
  (forall v, In (KServerMWB, v) toks -> o_req_mwb o <> 0 /\ v = Some (dec_string (o_req_mwb o))) /\
  (forall v, In (KServerNCT, v) toks -> o_req_nct o = true /\ v = None) /\
  (forall k v, In (k, v) toks -> k = KClientMWB \/ k = KClientNCT \/ k = KServerMWB \/ k = KServerNCT) /\
  NoDup (map fst toks) /\
  (o_req_nct o = true -> In (KServerNCT, None) toks /\ comp_nct s = true) /\
  (o_req_mwb o <> 0 -> In (KServerMWB, Some (dec_string (o_req_mwb o))) toks /\ comp_window s <= o_req_mwb o).
Proof.
  intros Ho Ha. apply d_offer_ok_inv in Ho. apply d_accept_ok_inv in Ha.
  destruct Ha as [Hrn Hrm Hnct Hwb _]. cbv zeta.
  refine (conj _ (conj _ (conj _ (conj _ (conj _ (conj _ (conj _ _))))))).
  - intros v Hin. apply d_accept_string_In in Hin.
    destruct Hin as [[_ E]|[[_ E]|[[_ E]|[Hnz E]]]]; try discriminate E. inversion E; subst. tauto.
  - intros v Hin. apply d_accept_string_In in Hin.
    destruct Hin as [[_ E]|[[_ E]|[[Hq E]|[_ E]]]]; try discriminate E. inversion E; subst. auto.
  - intros v Hin. apply d_accept_string_In in Hin.
    destruct Hin as [[_ E]|[[Hq E]|[[_ E]|[_ E]]]]; try discriminate E. inversion E; subst. auto.
  - intros v Hin. apply d_accept_string_In in Hin.
    destruct Hin as [[Hq E]|[[_ E]|[[_ E]|[_ E]]]]; try discriminate E. inversion E; subst. auto.
  - intros k v Hin. apply d_accept_string_In in Hin.
    destruct Hin as [[_ E]|[[_ E]|[[_ E]|[_ E]]]]; inversion E; subst; tauto.
  - apply d_accept_string_NoDup.
  - intros Hq. split; [apply d_accept_string_In; tauto|].
    unfold d_from_offer_accept, comp_nct, d_pmce. cbn [s_is_server s_server_nct].
    destruct (a_nct a) as [[|]|] eqn:En; try reflexivity; [|assumption]. specialize (Hnct eq_refl). congruence.
  - intros Hq. split; [apply d_accept_string_In; tauto|].
    unfold d_from_offer_accept, comp_window, d_pmce. cbn [s_is_server s_server_mwb].
    destruct (a_wbits a) as [w|] eqn:Ew.
    + destruct (Hwb w eq_refl) as [Hp Hle]. pose proof (window_range w Hp).
      replace (w =? 0) with false by (symmetry; apply Z.eqb_neq; lia). lia.
    + replace (o_req_mwb (a_offer a) =? 0) with false by (symmetry; now apply Z.eqb_neq). lia.
Qed.

(* ------------------------------------------------------------------------------------------------ *)
(** * Response.parse accepts exactly the well-formed parameter maps *)

Section ParseChar.
  Variable py_int : string -> option Z.

  Definition int_param_ok (l : list Z) (v : pval) : bool :=
    match int_of_pval py_int v with Some z => permissible l z | None => false end.
  Definition flag_ok (v : pval) : bool := match v with VTrue => true | VStr _ => false end.

  Lemma int_in_ok l v : is_ok (int_in py_int l v) = int_param_ok l v.
  Proof. unfold int_in, int_param_ok. destruct (int_of_pval py_int v); [|reflexivity]. now destruct (permissible l z). Qed.
  Lemma flag_is_ok v : is_ok (flag v) = flag_ok v.
  Proof. now destruct v. Qed.

  (* what one (key -> values) entry must look like for PerMessageDeflateResponse.parse not to raise *)
  Definition d_resp_param_ok (kv : pkey * list pval) : bool :=
    match kv with
    | (KClientMWB, [v]) | (KServerMWB, [v]) => int_param_ok window_permissible v
    | (KClientNCT, [v]) | (KServerNCT, [v]) => flag_ok v
    | _ => false
    end.
  Definition b_resp_param_ok (kv : pkey * list pval) : bool :=
    match kv with
    | (KClientMCL, [v]) | (KServerMCL, [v]) => int_param_ok level_permissible v
    | _ => false
    end.
  Definition n_resp_param_ok (kv : pkey * list pval) : bool :=
    match kv with
    | (KClientNCT, [v]) | (KServerNCT, [v]) => flag_ok v
    | _ => false
    end.

  Lemma d_response_parse_loop_ok ps : forall c_mwb c_nct s_mwb s_nct,
    is_ok (d_response_parse_loop py_int ps c_mwb c_nct s_mwb s_nct) = forallb d_resp_param_ok ps.
  Proof.
    induction ps as [|[k vs] r IH]; intros; [reflexivity|].
    cbn [d_response_parse_loop forallb d_resp_param_ok].
    destruct vs as [|v [|v2 vs]]; cbn [single bind is_ok]; try (destruct k; reflexivity).
    destruct k; cbn [andb]; try reflexivity.
    - rewrite <- int_in_ok. destruct (int_in py_int window_permissible v); cbn [bind is_ok andb]; [apply IH | reflexivity].
    - rewrite <- flag_is_ok. destruct (flag v); cbn [bind is_ok andb]; [apply IH | reflexivity].
    - rewrite <- int_in_ok. destruct (int_in py_int window_permissible v); cbn [bind is_ok andb]; [apply IH | reflexivity].
    - rewrite <- flag_is_ok. destruct (flag v); cbn [bind is_ok andb]; [apply IH | reflexivity].
  Qed.
  Lemma d_response_parse_ok ps : is_ok (d_response_parse py_int ps) = forallb d_resp_param_ok ps.
  Proof. apply d_response_parse_loop_ok. Qed.

  Lemma b_response_parse_loop_ok ps : forall c s,
    is_ok (b_response_parse_loop py_int ps c s) = forallb b_resp_param_ok ps.
  Proof.
    induction ps as [|[k vs] r IH]; intros; [reflexivity|].
    cbn [b_response_parse_loop forallb b_resp_param_ok].
    destruct vs as [|v [|v2 vs]]; cbn [single bind is_ok]; try (destruct k; reflexivity).
    destruct k; cbn [andb]; try reflexivity.
    - rewrite <- int_in_ok. destruct (int_in py_int level_permissible v); cbn [bind is_ok andb]; [apply IH | reflexivity].
    - rewrite <- int_in_ok. destruct (int_in py_int level_permissible v); cbn [bind is_ok andb]; [apply IH | reflexivity].
  Qed.
  Lemma b_response_parse_ok ps : is_ok (b_response_parse py_int ps) = forallb b_resp_param_ok ps.
  Proof. apply b_response_parse_loop_ok. Qed.

  Lemma n_response_parse_loop_ok ps : forall c s,
    is_ok (n_response_parse_loop ps c s) = forallb n_resp_param_ok ps.
  Proof.
    induction ps as [|[k vs] r IH]; intros; [reflexivity|].
    cbn [n_response_parse_loop forallb n_resp_param_ok].
    destruct vs as [|v [|v2 vs]]; cbn [single bind is_ok]; try (destruct k; reflexivity).
    destruct k; cbn [andb]; try reflexivity.
    - rewrite <- flag_is_ok. destruct (flag v); cbn [bind is_ok andb]; [apply IH | reflexivity].
    - rewrite <- flag_is_ok. destruct (flag v); cbn [bind is_ok andb]; [apply IH | reflexivity].
  Qed.
  Lemma n_response_parse_ok ps : is_ok (n_response_parse ps) = forallb n_resp_param_ok ps.
  Proof. apply n_response_parse_loop_ok. Qed.

  Definition resp_param_ok (x : ext) : pkey * list pval -> bool :=
    match x with XDeflate => d_resp_param_ok | XBzip2 => b_resp_param_ok | XBrotli | XSnappy => n_resp_param_ok end.

  Lemma is_ok_bind {A B} (r : res A) (f : A -> res B) : (forall a, is_ok (f a) = true) -> is_ok (bind r f) = is_ok r.
  Proof. intros H. destruct r; cbn; auto. Qed.

  Lemma parse_response_ok x ps : is_ok (parse_response py_int x ps) = forallb (resp_param_ok x) ps.
  Proof.
    destruct x; cbn [parse_response resp_param_ok]; rewrite is_ok_bind by reflexivity.
    - apply d_response_parse_ok.
    - apply b_response_parse_ok.
    - apply n_response_parse_ok.
    - apply n_response_parse_ok.
  Qed.

  (* the rejections named by the property, for any position of the offending parameter *)
  Lemma parse_response_rejects x ps k vs :
    In (k, vs) ps ->
    (List.length vs <> 1%nat                                                  (* duplicated parameter *)
     \/ (forall v, vs = [v] -> resp_param_ok x (k, [v]) = false)) ->          (* unknown name / bad value *)
    is_ok (parse_response py_int x ps) = false.
  Proof.
    intros Hin Hbad. rewrite parse_response_ok.
    destruct (forallb (resp_param_ok x) ps) eqn:E; [|reflexivity]. exfalso.
    pose proof (proj1 (forallb_forall _ _) E (k, vs) Hin) as H.
    destruct vs as [|v [|v2 r]].
    - destruct x, k; discriminate H.
    - destruct Hbad as [Hl|Hb]; [now apply Hl|]. rewrite (Hb v eq_refl) in H. discriminate.
    - destruct x, k; discriminate H.
  Qed.

  (* ---------------------------------------------------------------------------------------------- *)
  (** * the client opens the connection only for zero or exactly one, known, well-formed, accepted PMCE *)

  Lemma client_loop_some reg exts s0 policy s :
    client_loop py_int reg exts (Some s0) policy = COpen s -> exts = [] /\ s = Some s0.
  Proof.
    destruct exts as [|[name ps] r]; cbn [client_loop].
    - intros H. inversion H. auto.
    - destruct (lookup_ext reg name); discriminate.
  Qed.

  Lemma client_open_inv reg exts policy s :
    client_process py_int reg exts policy = COpen s ->
    (exts = [] /\ s = None) \/
    (exists name ps x resp ra s', exts = [(name, ps)] /\ lookup_ext reg name = Some x /\
        parse_response py_int x ps = Ok resp /\ policy resp = Some ra /\
        from_response_accept x false ra = Some s' /\ s = Some s').
  Proof.
    unfold client_process. destruct exts as [|[name ps] r]; cbn [client_loop].
    - intros H. inversion H. auto.
    - destruct (lookup_ext reg name) as [x|] eqn:El; [|discriminate].
      destruct (parse_response py_int x ps) as [resp|e] eqn:Ep; [|discriminate].
      destruct (policy resp) as [ra|] eqn:Epol; [|discriminate].
      destruct (from_response_accept x false ra) as [s'|] eqn:Ef; [|discriminate].
      intros H. apply client_loop_some in H. destruct H as [-> ->].
      right. exists name, ps, x, resp, ra, s'. auto 10.
  Qed.

  Lemma client_escaped_inv reg exts cur policy :
    client_loop py_int reg exts cur policy = CEscaped ->
    exists name ps x resp ra, In (name, ps) exts /\ lookup_ext reg name = Some x /\
       parse_response py_int x ps = Ok resp /\ policy resp = Some ra /\ from_response_accept x false ra = None.
  Proof.
    revert cur. induction exts as [|[name ps] r IH]; intros cur; cbn [client_loop]; [discriminate|].
    destruct (lookup_ext reg name) as [x|] eqn:El; [|discriminate].
    destruct cur; [discriminate|].
    destruct (parse_response py_int x ps) as [resp|e] eqn:Ep; [|discriminate].
    destruct (policy resp) as [ra|] eqn:Epol; [|discriminate].
    destruct (from_response_accept x false ra) as [s'|] eqn:Ef.
    - intros H. apply IH in H. destruct H as (n & p & x' & re & ra' & Hin & H). exists n, p, x', re, ra'. split; [now right | exact H].
    - intros _. exists name, ps, x, resp, ra. split; [now left | auto].
  Qed.

  (* the policy returns accept objects of the class belonging to the response it was given *)
  Definition policy_typed (policy : any_response -> option any_raccept) : Prop :=
    forall x ps resp ra, parse_response py_int x ps = Ok resp -> policy resp = Some ra ->
                         from_response_accept x false ra <> None.

  Lemma client_rejects reg exts policy :
    policy_typed policy ->
    (exists name ps, In (name, ps) exts /\ lookup_ext reg name = None) \/
    (2 <= List.length exts)%nat \/
    (exists name ps x, In (name, ps) exts /\ lookup_ext reg name = Some x /\ is_ok (parse_response py_int x ps) = false) \/
    (exists name ps x resp, In (name, ps) exts /\ lookup_ext reg name = Some x /\
        parse_response py_int x ps = Ok resp /\ policy resp = None) ->
    exists why, client_process py_int reg exts policy = CFail why.
  Proof.
    intros Hty Hbad.
    destruct (client_process py_int reg exts policy) as [why|s|] eqn:E.
    - now exists why.
    - exfalso. apply client_open_inv in E.
      destruct E as [[-> _]|(name & ps & x & resp & ra & s' & -> & El & Ep & Epol & Ef & _)].
      + destruct Hbad as [(n & p & [] & _)|[Hl|[(n & p & x & [] & _)|(n & p & x & r & [] & _)]]]. cbn in Hl. lia.
      + destruct Hbad as [(n & p & [Hin|[]] & Hn)|[Hl|[(n & p & x' & [Hin|[]] & Hl & Hp)|(n & p & x' & r & [Hin|[]] & Hl & Hp & Hpol)]]].
        * inversion Hin; subst. congruence.
        * cbn in Hl. lia.
        * inversion Hin; subst. rewrite El in Hl. inversion Hl; subst. rewrite Ep in Hp. discriminate.
        * inversion Hin; subst. rewrite El in Hl. inversion Hl; subst. rewrite Ep in Hp. inversion Hp; subst. congruence.
    - exfalso. unfold client_process in E. apply client_escaped_inv in E.
      destruct E as (name & ps & x & resp & ra & _ & _ & Ep & Epol & Ef). exact (Hty x ps resp ra Ep Epol Ef).
  Qed.
End ParseChar.

(* ------------------------------------------------------------------------------------------------ *)
(** * handle typestate: every library call lands on a live object *)

Section CodecProofs.
  Variables CS DS : Type.
  Variable c_new : Z -> Z -> CS.
  Variable c_compress : CS -> bytes -> CS * bytes.
  Variable c_flush : CS -> CS * bytes.
  Variable d_new : Z -> DS.
  Variable d_feed : DS -> bytes -> option (DS * bytes).

  Local Notation pm_t := (pmce CS DS).
  Local Notation startC := (start_compress CS DS c_new).
  Local Notation compD := (compress_data CS DS c_compress).
  Local Notation endC := (end_compress CS DS c_flush).
  Local Notation startD := (start_decompress CS DS d_new).
  Local Notation decD := (decompress_data CS DS d_feed).
  Local Notation endD := (end_decompress CS DS d_feed).
  Local Notation sendM := (send_message CS DS c_new c_compress c_flush).
  Local Notation streamF := (stream_frames CS DS c_compress c_flush).
  Local Notation sendS := (send_stream CS DS c_new c_compress c_flush).
  Local Notation feedC := (feed_chunks CS DS d_feed).
  Local Notation recvF := (recv_frame CS DS d_new d_feed).
  Local Notation recvFs := (recv_frames CS DS d_new d_feed).
  Local Notation sendMs := (send_msgs CS DS c_new c_compress c_flush).

  (* a finished compressor is harmless only if the next start_compress_message replaces it *)
  Definition comp_ok (p : pm_t) : Prop :=
    match p_comp p with HFinished _ => dc_start_nct (p_disc p) && p_comp_nct p = true | _ => True end.
  Definition comp_safe (p : pm_t) : Prop :=
    end_safe (dc_comp_end (p_disc p)) (dc_start_nct (p_disc p)) (p_comp_nct p) = true.
  Definition dec_ok (p : pm_t) : Prop :=
    match p_decomp p with HFinished _ => dc_start_nct (p_disc p) && p_decomp_nct p = true | _ => True end.
  Definition dec_safe (p : pm_t) : Prop :=
    end_safe (dc_decomp_end (p_disc p)) (dc_start_nct (p_disc p)) (p_decomp_nct p) = true.

  Definition same_cfg (p q : pm_t) : Prop :=
    p_disc q = p_disc p /\ p_comp_w q = p_comp_w p /\ p_mem q = p_mem p /\ p_comp_nct q = p_comp_nct p /\
    p_decomp_w q = p_decomp_w p /\ p_decomp_nct q = p_decomp_nct p.
  Lemma same_cfg_refl p : same_cfg p p. Proof. repeat split. Qed.
  Lemma same_cfg_trans p q r : same_cfg p q -> same_cfg q r -> same_cfg p r.
  Proof. unfold same_cfg. intuition congruence. Qed.
  Lemma same_cfg_set_comp p h g : same_cfg p (set_comp p h g). Proof. repeat split. Qed.
  Lemma same_cfg_set_decomp p h g : same_cfg p (set_decomp p h g). Proof. repeat split. Qed.

  Lemma startC_live p : comp_ok p -> exists g st, p_comp (startC p) = HLive g st.
  Proof.
    unfold comp_ok, start_compress. destruct (p_comp p) as [|g st|g] eqn:E; cbn [is_none orb].
    - intros _. cbn. eauto.
    - intros _. destruct (dc_start_nct (p_disc p) && p_comp_nct p); cbn; eauto.
    - intros H. rewrite H. cbn. eauto.
  Qed.
  Lemma startC_cfg p : same_cfg p (startC p) /\ p_decomp (startC p) = p_decomp p.
  Proof.
    unfold start_compress. destruct (is_none (p_comp p) || dc_start_nct (p_disc p) && p_comp_nct p).
    - split; [apply same_cfg_set_comp | reflexivity].
    - split; [apply same_cfg_refl | reflexivity].
  Qed.

  Lemma compD_live p g st data :
    p_comp p = HLive g st ->
    compD p data = Ok (set_comp p (HLive g (fst (c_compress st data))) (p_gen p), snd (c_compress st data)).
  Proof. intros H. unfold compress_data. rewrite H. now destruct (c_compress st data). Qed.

  Definition end_handle {S} (k : end_kind) (g : N) (st : S) : handle S :=
    match k with EndKeep => HLive g st | EndDrop => HNone | EndFinish => HFinished g end.

  Lemma endC_live p g st :
    p_comp p = HLive g st ->
    endC p = if negb (dc_flush (p_disc p)) then Ok (p, [])
             else Ok (set_comp p (end_handle (dc_comp_end (p_disc p)) g (fst (c_flush st))) (p_gen p),
                      if dc_tail (p_disc p) then strip4 (snd (c_flush st)) else snd (c_flush st)).
  Proof.
    intros H. unfold end_compress. rewrite H. destruct (negb (dc_flush (p_disc p))); [reflexivity|].
    destruct (c_flush st). unfold end_handle. cbn [fst snd]. now destruct (dc_comp_end (p_disc p)).
  Qed.

  Lemma endC_safe p g st :
    p_comp p = HLive g st -> comp_safe p ->
    exists p' out, endC p = Ok (p', out) /\ same_cfg p p' /\ comp_ok p' /\ p_decomp p' = p_decomp p.
  Proof.
    intros H Hs. rewrite (endC_live p g st H). destruct (negb (dc_flush (p_disc p))).
    - exists p, []. repeat split. unfold comp_ok. now rewrite H.
    - eexists _, _. split; [reflexivity|]. split; [apply same_cfg_set_comp|]. split; [|reflexivity].
      unfold comp_ok. cbn [p_comp set_comp p_disc p_comp_nct]. unfold comp_safe, end_safe in Hs.
      destruct (dc_comp_end (p_disc p)); cbn [end_handle]; auto.
  Qed.

  Definition sender_inv (pm : option pm_t) : Prop :=
    match pm with None => True | Some p => comp_ok p /\ comp_safe p end.

  Lemma comp_safe_cfg p q : same_cfg p q -> comp_safe p -> comp_safe q.
  Proof. unfold same_cfg, comp_safe. intros (H1 & _ & _ & H4 & _). now rewrite H1, H4. Qed.

  (* sendMessage never trips over the typestate; it either sends or complains about the fragment size *)
  Lemma sendM_safe pm payload b frag dnc :
    sender_inv pm ->
    match sendM pm payload b frag dnc with
    | (pm', inl _) => sender_inv pm'
    | (pm', inr SEFragSize) => sender_inv pm'
    | (_, inr (SE _)) => False
    end.
  Proof.
    intros Hinv. unfold send_message.
    assert (Hfrag : forall (pm' : option pm_t) (c : bool) (pl : bytes), sender_inv pm' ->
      match (pm', fragment_message (if b then 2%N else 1%N) (if c then 4%N else 0%N) frag pl) with
      | (pm'', inl _) => sender_inv pm''
      | (pm'', inr SEFragSize) => sender_inv pm''
      | (_, inr (SE _)) => False
      end).
    { intros pm' c pl H. unfold fragment_message. destruct frag as [pfs|]; [|exact H].
      destruct (Z.of_nat (List.length pl) <=? pfs); [exact H|]. destruct (pfs <? 1); exact H. }
    destruct pm as [p|]; [|apply (Hfrag None false payload); exact I].
    destruct dnc; [apply (Hfrag (Some p) false payload); exact Hinv|].
    destruct Hinv as [Hok Hsafe].
    destruct (startC_live p Hok) as (g & st & Hl). destruct (startC_cfg p) as [Hcfg _].
    rewrite (compD_live _ g st payload Hl). cbn [bind].
    set (p1 := set_comp (startC p) (HLive g (fst (c_compress st payload))) (p_gen (startC p))).
    assert (Hl1 : p_comp p1 = HLive g (fst (c_compress st payload))) by reflexivity.
    assert (Hcfg1 : same_cfg p p1) by (eapply same_cfg_trans; [exact Hcfg | apply same_cfg_set_comp]).
    destruct (endC_safe p1 g _ Hl1 (comp_safe_cfg _ _ Hcfg1 Hsafe)) as (p2 & out2 & He & Hcfg2 & Hok2 & _).
    rewrite He. cbn [bind].
    apply (Hfrag (Some p2) true (snd (c_compress st payload) ++ out2)).
    split; [exact Hok2|]. eapply comp_safe_cfg; [|exact Hsafe]. eapply same_cfg_trans; eassumption.
  Qed.

  Lemma streamF_safe pieces : forall p first opcode,
    (exists g st, p_comp p = HLive g st) -> comp_safe p ->
    exists p' fs, streamF (Some p) true first opcode pieces = Ok (Some p', fs) /\ same_cfg p p' /\ comp_ok p'.
  Proof.
    induction pieces as [|x r IH]; intros p first opcode (g & st & Hl) Hs; cbn [stream_frames].
    - destruct (endC_safe p g st Hl Hs) as (p' & out & He & Hc & Hok & _). rewrite He. cbn [bind]. eauto.
    - rewrite (compD_live p g st x Hl). cbn [bind].
      set (p1 := set_comp p (HLive g (fst (c_compress st x))) (p_gen p)).
      assert (Hc1 : same_cfg p p1) by apply same_cfg_set_comp.
      destruct (IH p1 false opcode) as (p' & fs & He & Hc & Hok).
      + eexists _, _. reflexivity.
      + eapply comp_safe_cfg; eassumption.
      + rewrite He. cbn [bind]. eexists _, _. split; [reflexivity|]. split; [|exact Hok].
        exact (same_cfg_trans _ _ _ Hc1 Hc).
  Qed.

  Lemma streamF_plain pieces : forall (pm : option pm_t) first opcode,
    exists fs, streamF pm false first opcode pieces = Ok (pm, fs).
  Proof.
    induction pieces as [|x r IH]; intros pm first opcode; cbn [stream_frames].
    - destruct pm; eauto.
    - destruct (IH pm false opcode) as (fs & He).
      destruct pm; rewrite He; cbn [bind]; eauto.
  Qed.

  Lemma sendS_safe pm pieces b dnc :
    sender_inv pm -> exists pm' fs, sendS pm pieces b dnc = Ok (pm', fs) /\ sender_inv pm'.
  Proof.
    intros Hinv. unfold send_stream. destruct pm as [p|].
    - destruct dnc.
      + destruct (streamF_plain pieces (Some p) true (if b then 2%N else 1%N)) as (fs & He). eauto.
      + destruct Hinv as [Hok Hsafe]. destruct (startC_cfg p) as [Hcfg _].
        destruct (streamF_safe pieces (startC p) true (if b then 2%N else 1%N) (startC_live p Hok)
                               (comp_safe_cfg _ _ Hcfg Hsafe)) as (p' & fs & He & Hc & Hok').
        exists (Some p'), fs. split; [exact He|]. split; [exact Hok'|].
        eapply comp_safe_cfg; [|exact Hsafe]. eapply same_cfg_trans; eassumption.
    - destruct (streamF_plain pieces None true (if b then 2%N else 1%N)) as (fs & He). eauto.
  Qed.

  Lemma typestate_send pm ms : sender_inv pm -> ~ typestate_error_send CS DS (sendMs pm ms).
  Proof.
    revert pm. induction ms as [|m r IH]; intros pm Hinv; cbn [send_msgs]; [intros []|].
    destruct m as [pl b frag dnc | ps b dnc].
    - pose proof (sendM_safe pm pl b frag dnc Hinv) as H.
      destruct (sendM pm pl b frag dnc) as [pm' [fs|[e|]]]; [| contradiction | intros []].
      specialize (IH pm' H). destruct (sendMs pm' r) as [pm'' fss|e fss]; [intros [] | exact IH].
    - destruct (sendS_safe pm ps b dnc Hinv) as (pm' & fs & He & Hinv'). rewrite He.
      specialize (IH pm' Hinv'). destruct (sendMs pm' r) as [pm'' fss|e fss]; [intros [] | exact IH].
  Qed.

  (* ---- receive side: for EVERY incoming frame sequence ---- *)
  Lemma startD_live p : dec_ok p -> exists g st, p_decomp (startD p) = HLive g st.
  Proof.
    unfold dec_ok, start_decompress. destruct (p_decomp p) as [|g st|g] eqn:E; cbn [is_none orb].
    - intros _. cbn. eauto.
    - intros _. destruct (dc_start_nct (p_disc p) && p_decomp_nct p); cbn; eauto.
    - intros H. rewrite H. cbn. eauto.
  Qed.
  Lemma startD_cfg p : same_cfg p (startD p) /\ p_comp (startD p) = p_comp p.
  Proof.
    unfold start_decompress. destruct (is_none (p_decomp p) || dc_start_nct (p_disc p) && p_decomp_nct p).
    - split; [apply same_cfg_set_decomp | reflexivity].
    - split; [apply same_cfg_refl | reflexivity].
  Qed.
  Lemma dec_safe_cfg p q : same_cfg p q -> dec_safe p -> dec_safe q.
  Proof. unfold same_cfg, dec_safe. intros (H1 & _ & _ & _ & _ & H6). now rewrite H1, H6. Qed.

  Definition not_typestate (e : exn) : Prop := match e with ETypestate _ => False | _ => True end.

  Lemma feedC_safe chunks : forall p,
    (exists g st, p_decomp p = HLive g st) ->
    match feedC p chunks with
    | Ok (p', _) => same_cfg p p' /\ (exists g st, p_decomp p' = HLive g st) /\ p_comp p' = p_comp p
    | Raise e => not_typestate e
    end.
  Proof.
    induction chunks as [|c r IH]; intros p (g & st & Hl); cbn [feed_chunks].
    - split; [apply same_cfg_refl|]. split; eauto.
    - unfold decompress_data.
      destruct (dc_empty_guard (p_disc p) && match c with [] => true | _ :: _ => false end).
      + cbn [bind]. specialize (IH p (ex_intro _ g (ex_intro _ st Hl))).
        destruct (feedC p r) as [[p2 o2]|e]; cbn [bind]; exact IH.
      + rewrite Hl. destruct (d_feed st c) as [[st' out]|]; cbn [bind]; [|exact I].
        set (p1 := set_decomp p (HLive g st') (p_gen p)).
        specialize (IH p1 (ex_intro _ g (ex_intro _ st' eq_refl))).
        destruct (feedC p1 r) as [[p2 o2]|e]; cbn [bind]; [|exact IH].
        destruct IH as (Hc & Hl2 & Hcomp). split; [|split; [exact Hl2 | exact Hcomp]].
        eapply same_cfg_trans; [apply same_cfg_set_decomp | exact Hc].
  Qed.

  Lemma endD_safe p :
    (exists g st, p_decomp p = HLive g st) -> dec_safe p ->
    match endD p with
    | Ok p' => same_cfg p p' /\ dec_ok p' /\ p_comp p' = p_comp p
    | Raise e => not_typestate e
    end.
  Proof.
    intros (g & st & Hl) Hs. unfold end_decompress. rewrite Hl. destruct (dc_tail (p_disc p)).
    - destruct (d_feed st tail4) as [[st' junk]|]; [|exact I].
      split; [apply same_cfg_set_decomp|]. split; [|reflexivity]. unfold dec_ok. cbn. exact I.
    - unfold dec_safe, end_safe in Hs. destruct (dc_decomp_end (p_disc p)).
      + split; [apply same_cfg_refl|]. split; [|reflexivity]. unfold dec_ok. now rewrite Hl.
      + split; [apply same_cfg_set_decomp|]. split; [|reflexivity]. unfold dec_ok. cbn. exact I.
      + split; [apply same_cfg_set_decomp|]. split; [|reflexivity]. unfold dec_ok. cbn. exact Hs.
  Qed.

  Definition recv_inv (st : rstate CS DS) : Prop :=
    match r_pmce st with
    | None => True
    | Some p => dec_safe p /\
                (if r_inside st && r_compressed st then exists g ds, p_decomp p = HLive g ds else dec_ok p)
    end.

  Definition ev_clean (evs : list revent) : Prop :=
    forall e, In e evs -> match e with Escaped x => not_typestate x | _ => True end.

  Lemma recvF_safe st fin rsv opcode chunks :
    recv_inv st ->
    let '(st', evs, _) := recvF st fin rsv opcode chunks in recv_inv st' /\ ev_clean evs.
  Proof.
    intros Hinv. unfold recv_frame.
    destruct (rsv_checks _ _ rsv opcode) as [|v vs].
    2:{ split; [exact Hinv|]. intros e [<-|[]]. exact I. }
    destruct (7 <? opcode)%N. { split; [exact Hinv|]. intros e []. }
    destruct (2 <? opcode)%N. { split; [exact Hinv|]. intros e [<-|[]]. exact I. }
    unfold recv_inv in Hinv.
    destruct st as [pm inside compressed binary data]. cbn [r_pmce r_inside r_compressed r_binary r_data] in *.
    destruct pm as [p|].
    2:{ (* no PMCE: nothing to go wrong *)
      destruct inside; cbn [r_pmce]; destruct fin; cbn [bind];
        (split; [exact I | intros e Hin; repeat (destruct Hin as [<-|Hin]; [exact I|]); destruct Hin]). }
    destruct Hinv as [Hsafe Hst].
    (* the state after onFrameBegin *)
    assert (Hbegin : forall (q : pm_t) (c : bool) (bin : bool) (acc : bytes),
      dec_safe q -> (if c then exists g ds, p_decomp q = HLive g ds else dec_ok q) ->
      let '(st', evs, _) :=
        match (match Some q, c with
               | Some p0, true => bind (feedC p0 chunks) (fun '(p', out) => Ok (Some p', out))
               | _, _ => Ok (Some q, List.concat chunks)
               end) with
        | Raise e => ({| r_pmce := Some p; r_inside := inside; r_compressed := compressed; r_binary := binary; r_data := data |},
                      [Escaped e], false)
        | Ok (pm1, out) =>
            if fin
            then match (match pm1, c with
                        | Some p0, true => bind (endD p0) (fun p' => Ok (Some p'))
                        | _, _ => Ok pm1
                        end) with
                 | Raise e => ({| r_pmce := Some p; r_inside := inside; r_compressed := compressed; r_binary := binary; r_data := data |},
                               [Escaped e], false)
                 | Ok pm2 => ({| r_pmce := pm2; r_inside := false; r_compressed := c; r_binary := bin; r_data := [] |},
                              [Delivered (acc ++ out) bin], true)
                 end
            else ({| r_pmce := pm1; r_inside := true; r_compressed := c; r_binary := bin; r_data := acc ++ out |}, [], true)
        end in
      (match r_pmce st' with
       | None => True
       | Some p' => dec_safe p' /\ (if r_inside st' && r_compressed st' then exists g ds, p_decomp p' = HLive g ds else dec_ok p')
       end) /\ ev_clean evs).
    { intros q c bin acc Hqs Hq. destruct c.
      - pose proof (feedC_safe chunks q Hq) as Hf. destruct (feedC q chunks) as [[q1 out]|e]; cbn [bind].
        2:{ cbn [r_pmce r_inside r_compressed]. split; [split; assumption|]. intros x [<-|[]]. exact Hf. }
        destruct Hf as (Hc & Hl & _). destruct fin.
        + pose proof (endD_safe q1 Hl (dec_safe_cfg _ _ Hc Hqs)) as He. destruct (endD q1) as [q2|e]; cbn [bind].
          * destruct He as (Hc2 & Hok2 & _). cbn [r_pmce r_inside r_compressed andb]. split.
            -- split; [|exact Hok2]. eapply dec_safe_cfg; [|exact Hqs]. eapply same_cfg_trans; eassumption.
            -- intros x [<-|[]]. exact I.
          * cbn [r_pmce r_inside r_compressed]. split; [split; assumption|]. intros x [<-|[]]. exact He.
        + cbn [r_pmce r_inside r_compressed andb]. split; [|intros x []].
          split; [eapply dec_safe_cfg; eassumption | exact Hl].
      - destruct fin; cbn [r_pmce r_inside r_compressed andb]; rewrite ?andb_false_r.
        + split; [split; assumption|]. intros x [<-|[]]. exact I.
        + split; [split; assumption|]. intros x []. }
    destruct inside.
    - (* continuation frame of a running message *)
      cbn [andb] in Hst. apply (Hbegin p compressed binary data Hsafe).
      destruct compressed; exact Hst.
    - cbn [andb] in Hst. destruct (rsv =? 4)%N.
      + destruct (startD_cfg p) as [Hc _].
        apply (Hbegin (startD p) true (opcode =? 2)%N [] (dec_safe_cfg _ _ Hc Hsafe)). apply startD_live. exact Hst.
      + apply (Hbegin p false (opcode =? 2)%N [] Hsafe). exact Hst.
  Qed.

  Lemma typestate_recv fs : forall st, recv_inv st -> ev_clean (snd (recvFs st fs)).
  Proof.
    induction fs as [|[[[fin rsv] opcode] chunks] r IH]; intros st Hinv; cbn [recv_frames].
    - intros e [].
    - pose proof (recvF_safe st fin rsv opcode chunks Hinv) as H.
      destruct (recvF st fin rsv opcode chunks) as [[st1 ev] cont]. destruct H as [Hinv1 Hev].
      destruct cont; [|exact Hev].
      specialize (IH st1 Hinv1). destruct (recvFs st1 r) as [st2 ev2]. cbn [snd] in *.
      intros e Hin. apply in_app_or in Hin. destruct Hin; [now apply Hev | now apply IH].
  Qed.

  Lemma ev_clean_no_typestate evs : ev_clean evs -> ~ typestate_error_recv evs.
  Proof. intros H [w Hin]. exact (H _ Hin). Qed.
End CodecProofs.

(* ------------------------------------------------------------------------------------------------ *)
(** * frames of one message *)

(* continuation frames carrying the payload slices [pls]; FIN on the last *)
Fixpoint mk_conts (pls : list bytes) : list frame :=
  match pls with
  | [] => []
  | p :: r => {| f_fin := match r with [] => true | _ => false end; f_rsv := 0; f_opcode := 0; f_payload := p |} :: mk_conts r
  end.
(* a whole message: opcode and RSV on the first frame only *)
Definition mk_frames (opcode rsv : N) (pls : list bytes) : list frame :=
  match pls with
  | [] => []
  | p :: r => {| f_fin := match r with [] => true | _ => false end; f_rsv := rsv; f_opcode := opcode; f_payload := p |} :: mk_conts r
  end.

Lemma frag_loop_shape opcode rsv pfs : (0 < pfs)%nat ->
  forall fuel rest, (List.length rest < fuel)%nat ->
  exists pls, pls <> [] /\ List.concat pls = rest /\
              frag_loop fuel pfs false opcode rsv rest = mk_conts pls /\
              frag_loop fuel pfs true opcode rsv rest = mk_frames opcode rsv pls.
Proof.
  intros Hp. induction fuel as [|f IH]; intros rest Hl; [lia|]. cbn [frag_loop].
  destruct (List.length rest <? pfs)%nat eqn:E.
  - exists [rest]. split; [discriminate|]. split; [cbn; apply app_nil_r|]. split; reflexivity.
  - apply Nat.ltb_ge in E.
    destruct (IH (skipn pfs rest)) as (pls & Hne & Hc & H1 & H2).
    { rewrite skipn_length. lia. }
    exists (firstn pfs rest :: pls). split; [discriminate|]. split.
    + cbn [List.concat]. rewrite Hc. apply firstn_skipn.
    + destruct pls as [|p1 r1]; [contradiction|]. rewrite H1. split; reflexivity.
Qed.

Section Lossless.
  Variables CS DS : Type.
  Variable c_new : Z -> Z -> CS.
  Variable c_compress : CS -> bytes -> CS * bytes.
  Variable c_flush : CS -> CS * bytes.
  Variable d_new : Z -> DS.
  Variable d_feed : DS -> bytes -> option (DS * bytes).

  Local Notation pm_t := (pmce CS DS).
  Local Notation rs_t := (rstate CS DS).
  Local Notation startC := (start_compress CS DS c_new).
  Local Notation compD := (compress_data CS DS c_compress).
  Local Notation endC := (end_compress CS DS c_flush).
  Local Notation startD := (start_decompress CS DS d_new).
  Local Notation decD := (decompress_data CS DS d_feed).
  Local Notation endD := (end_decompress CS DS d_feed).
  Local Notation sendM := (send_message CS DS c_new c_compress c_flush).
  Local Notation streamF := (stream_frames CS DS c_compress c_flush).
  Local Notation sendS := (send_stream CS DS c_new c_compress c_flush).
  Local Notation feedC := (feed_chunks CS DS d_feed).
  Local Notation recvF := (recv_frame CS DS d_new d_feed).
  Local Notation recvFs := (recv_frames CS DS d_new d_feed).
  Local Notation sendMs := (send_msgs CS DS c_new c_compress c_flush).
  Local Notation crun := (c_run_data CS c_compress).

  Variable x : ext.
  Variable compat : Z -> Z -> bool.
  Variable R : Z -> CS -> DS -> Prop.
  Hypothesis law : codec_law CS DS c_new c_compress c_flush d_new d_feed (disc_of x) compat R.

  Lemma set_decomp_same (p : pm_t) g ds : p_decomp p = HLive g ds -> set_decomp p (HLive g ds) (p_gen p) = p.
  Proof. destruct p. cbn. intros ->. reflexivity. Qed.

  (* feed_chunks over a concatenation (no property of the codec involved) *)
  Lemma feedC_app a : forall (p : pm_t) b,
    feedC p (a ++ b) = bind (feedC p a) (fun '(p1, o1) => bind (feedC p1 b) (fun '(p2, o2) => Ok (p2, o1 ++ o2))).
  Proof.
    induction a as [|c r IH]; intros p b; cbn [app feed_chunks bind].
    - destruct (feedC p b) as [[p2 o2]|e]; reflexivity.
    - destruct (decD p c) as [[p1 o1]|e]; cbn [bind]; [|reflexivity].
      rewrite IH. destruct (feedC p1 r) as [[p2 o2]|e]; cbn [bind]; [|reflexivity].
      destruct (feedC p2 b) as [[p3 o3]|e]; cbn [bind]; [|reflexivity]. now rewrite app_assoc.
  Qed.

  Lemma feedC_app_inv a (p : pm_t) b p2 X :
    feedC p (a ++ b) = Ok (p2, X) ->
    exists p1 oa ob, feedC p a = Ok (p1, oa) /\ feedC p1 b = Ok (p2, ob) /\ X = oa ++ ob.
  Proof.
    rewrite feedC_app. destruct (feedC p a) as [[p1 oa]|e] eqn:Ea; cbn [bind]; [|discriminate].
    destruct (feedC p1 b) as [[p3 ob]|e] eqn:Eb; cbn [bind]; [|discriminate].
    intros H. inversion H; subst. exists p1, oa, ob. auto.
  Qed.

  (* empty input never changes anything: guarded away (bzip2) or answered with nothing by the library *)
  Lemma decD_nil (p : pm_t) g ds :
    p_decomp p = HLive g ds -> p_disc p = disc_of x -> decD p [] = Ok (p, []).
  Proof.
    intros Hl Hd. unfold decompress_data. rewrite Hd. destruct (dc_empty_guard (disc_of x)) eqn:Eg; [reflexivity|].
    cbn [andb]. rewrite Hl, (law_feed_nil _ _ _ _ _ _ _ _ _ _ law Eg). now rewrite set_decomp_same.
  Qed.

  Lemma decD_cons (p : pm_t) g ds a c ds1 X :
    p_decomp p = HLive g ds -> d_feed ds (a :: c) = Some (ds1, X) ->
    decD p (a :: c) = Ok (set_decomp p (HLive g ds1) (p_gen p), X).
  Proof. intros Hl Hf. unfold decompress_data. rewrite andb_false_r, Hl, Hf. reflexivity. Qed.

  (* the chunks as they arrive - empty ones included - against the library fed with the non-empty ones *)
  Lemma feedC_seq chunks : forall (p : pm_t) g ds ds1 X,
    p_decomp p = HLive g ds -> p_disc p = disc_of x ->
    feed_seq DS d_feed ds (filter nonempty chunks) = Some (ds1, X) ->
    feedC p chunks = Ok (set_decomp p (HLive g ds1) (p_gen p), X).
  Proof.
    induction chunks as [|c r IH]; intros p g ds ds1 X Hl Hd Hf; cbn [feed_chunks filter feed_seq] in *.
    - inversion Hf; subst. now rewrite set_decomp_same.
    - destruct c as [|a c]; cbn [nonempty] in Hf.
      + rewrite (decD_nil p g ds Hl Hd). cbn [bind]. rewrite (IH p g ds ds1 X Hl Hd Hf). reflexivity.
      + cbn [feed_seq] in Hf.
        destruct (d_feed ds (a :: c)) as [[dsa oa]|] eqn:Ea; cbn [obind] in Hf; [|discriminate].
        destruct (feed_seq DS d_feed dsa (filter nonempty r)) as [[dsb ob]|] eqn:Eb; cbn [obind] in Hf; [|discriminate].
        inversion Hf; subst. rewrite (decD_cons p g ds a c dsa oa Hl Ea). cbn [bind].
        rewrite (IH (set_decomp p (HLive g dsa) (p_gen p)) g dsa ds1 ob eq_refl Hd Eb). reflexivity.
  Qed.

  Lemma filter_nonempty_ok l : forallb nonempty (filter nonempty l) = true.
  Proof. induction l as [|c r IH]; [reflexivity|]. cbn [filter]. destruct c; cbn [nonempty forallb andb]; assumption. Qed.
  Lemma concat_filter_nonempty l : List.concat (filter nonempty l) = List.concat l.
  Proof. induction l as [|c r IH]; [reflexivity|]. destruct c; cbn [filter nonempty List.concat app]; now rewrite IH. Qed.

  (* the chunks of a received frame sequence, in order *)
  Definition allchunks (rfs : list rframe) : list bytes := List.concat (map (fun rf : rframe => snd rf) rfs).

  (* recv_frame after onFrameBegin has fixed (pmce, compressed, binary, data) *)
  Definition after_begin (st : rs_t) (pm : option pm_t) (compressed binary : bool) (data : bytes)
             (fin : bool) (chunks : list bytes) : rs_t * list revent * bool :=
    match (match pm, compressed with
           | Some p, true => bind (feedC p chunks) (fun '(p', out) => Ok (Some p', out))
           | _, _ => Ok (pm, List.concat chunks)
           end) with
    | Raise e => (st, [Escaped e], false)
    | Ok (pm1, out) =>
        if fin then
          match (match pm1, compressed with
                 | Some p, true => bind (endD p) (fun p' => Ok (Some p'))
                 | _, _ => Ok pm1
                 end) with
          | Raise e => (st, [Escaped e], false)
          | Ok pm2 =>
              ({| r_pmce := pm2; r_inside := false; r_compressed := compressed; r_binary := binary; r_data := [] |},
               [Delivered (data ++ out) binary], true)
          end
        else ({| r_pmce := pm1; r_inside := true; r_compressed := compressed; r_binary := binary;
                 r_data := data ++ out |}, [], true)
    end.

  Lemma recvF_cont (st : rs_t) p fin chunks :
    r_pmce st = Some p -> r_inside st = true ->
    recvF st fin 0 0 chunks = after_begin st (r_pmce st) (r_compressed st) (r_binary st) (r_data st) fin chunks.
  Proof. intros Hp Hi. unfold recv_frame, after_begin. rewrite Hp, Hi. reflexivity. Qed.

  Lemma recvF_first (st : rs_t) p fin rsv opcode chunks :
    r_pmce st = Some p -> r_inside st = false -> (opcode = 1 \/ opcode = 2)%N -> (rsv = 0 \/ rsv = 4)%N ->
    recvF st fin rsv opcode chunks =
      if (rsv =? 4)%N then after_begin st (Some (startD p)) true (opcode =? 2)%N [] fin chunks
      else after_begin st (Some p) false (opcode =? 2)%N [] fin chunks.
  Proof.
    intros Hp Hi Ho Hr. unfold recv_frame, after_begin. rewrite Hp, Hi.
    destruct Ho as [-> | ->]; destruct Hr as [-> | ->]; reflexivity.
  Qed.

  Lemma recvFs_cons (st : rs_t) fin rsv opcode chunks r :
    recvFs st ((fin, rsv, opcode, chunks) :: r) =
      let '(st1, ev, cont) := recvF st fin rsv opcode chunks in
      if cont then (fst (recvFs st1 r), ev ++ snd (recvFs st1 r)) else (st1, ev).
  Proof.
    cbn [recv_frames]. destruct (recvF st fin rsv opcode chunks) as [[st1 ev] cont].
    destruct cont; [|reflexivity]. now destruct (recvFs st1 r).
  Qed.

  (* the continuation frames of a compressed message *)
  Lemma recv_conts_c pls : forall (st : rs_t) p rfs more p1 X p2,
    pls <> [] ->
    r_pmce st = Some p -> r_inside st = true -> r_compressed st = true ->
    Forall2 chunked (mk_conts pls) rfs ->
    feedC p (allchunks rfs) = Ok (p1, X) ->
    endD p1 = Ok p2 ->
    recvFs st (rfs ++ more) =
      let st2 := {| r_pmce := Some p2; r_inside := false; r_compressed := true; r_binary := r_binary st; r_data := [] |} in
      (fst (recvFs st2 more), Delivered (r_data st ++ X) (r_binary st) :: snd (recvFs st2 more)).
  Proof.
    induction pls as [|pl r IH]; intros st p rfs more p1 X p2 Hne Hp Hi Hc Hch Hf He; [contradiction|].
    cbn [mk_conts] in Hch. inversion Hch as [|f rf fs rfs' Hrf Hrest]; subst. clear Hch.
    destruct rf as [[[fin rsv] opcode] chunks]. cbn [chunked f_fin f_rsv f_opcode f_payload] in Hrf.
    destruct Hrf as (-> & -> & -> & Hcc).
    unfold allchunks in Hf. cbn [map snd List.concat] in Hf. fold (allchunks rfs') in Hf.
    apply feedC_app_inv in Hf. destruct Hf as (pa & oa & ob & Ha & Hb & ->).
    rewrite <- app_comm_cons, recvFs_cons, (recvF_cont st p _ chunks Hp Hi). unfold after_begin.
    rewrite Hp, Hc, Ha. cbn [bind].
    destruct r as [|pl2 r2].
    - inversion Hrest; subst. cbn [allchunks map List.concat feed_chunks] in Hb. inversion Hb; subst.
      rewrite He. cbn [bind app]. rewrite app_nil_r. reflexivity.
    - set (st1 := {| r_pmce := Some pa; r_inside := true; r_compressed := true;
                     r_binary := r_binary st; r_data := r_data st ++ oa |}).
      rewrite (IH st1 pa rfs' more p1 ob p2); try reflexivity; try assumption.
      + cbn [app fst snd r_binary r_data st1]. rewrite app_assoc. reflexivity.
      + discriminate.
  Qed.

  (* a whole compressed message *)
  Lemma recv_msg_c pls (st : rs_t) p rfs more p1 X p2 opcode :
    pls <> [] -> (opcode = 1 \/ opcode = 2)%N ->
    r_pmce st = Some p -> r_inside st = false ->
    Forall2 chunked (mk_frames opcode 4 pls) rfs ->
    feedC (startD p) (allchunks rfs) = Ok (p1, X) ->
    endD p1 = Ok p2 ->
    recvFs st (rfs ++ more) =
      let st2 := {| r_pmce := Some p2; r_inside := false; r_compressed := true; r_binary := (opcode =? 2)%N; r_data := [] |} in
      (fst (recvFs st2 more), Delivered X (opcode =? 2)%N :: snd (recvFs st2 more)).
  Proof.
    intros Hne Ho Hp Hi Hch Hf He. destruct pls as [|pl r]; [contradiction|].
    cbn [mk_frames] in Hch. inversion Hch as [|f rf fs rfs' Hrf Hrest]; subst. clear Hch.
    destruct rf as [[[fin rsv] op] chunks]. cbn [chunked f_fin f_rsv f_opcode f_payload] in Hrf.
    destruct Hrf as (-> & -> & -> & Hcc).
    unfold allchunks in Hf. cbn [map snd List.concat] in Hf. fold (allchunks rfs') in Hf.
    apply feedC_app_inv in Hf. destruct Hf as (pa & oa & ob & Ha & Hb & ->).
    rewrite <- app_comm_cons, recvFs_cons, (recvF_first st p _ 4 opcode chunks Hp Hi Ho (or_intror eq_refl)).
    cbn [N.eqb Pos.eqb]. unfold after_begin. rewrite Ha. cbn [bind].
    destruct r as [|pl2 r2].
    - inversion Hrest; subst. cbn [allchunks map List.concat feed_chunks] in Hb. inversion Hb; subst.
      rewrite He. cbn [bind app]. rewrite app_nil_r. reflexivity.
    - set (st1 := {| r_pmce := Some pa; r_inside := true; r_compressed := true;
                     r_binary := (opcode =? 2)%N; r_data := [] ++ oa |}).
      rewrite (recv_conts_c (pl2 :: r2) st1 pa rfs' more p1 ob p2); try reflexivity; try assumption.
      discriminate.
  Qed.

  Lemma mk_conts_payloads pls : List.concat (map f_payload (mk_conts pls)) = List.concat pls.
  Proof. induction pls as [|p r IH]; cbn [mk_conts map List.concat f_payload]; [reflexivity | now rewrite IH]. Qed.
  Lemma mk_frames_payloads opcode rsv pls : List.concat (map f_payload (mk_frames opcode rsv pls)) = List.concat pls.
  Proof. destruct pls as [|p r]; cbn [mk_frames map List.concat f_payload]; [reflexivity | now rewrite mk_conts_payloads]. Qed.
  Lemma chunked_concat fs rfs : Forall2 chunked fs rfs -> List.concat (allchunks rfs) = List.concat (map f_payload fs).
  Proof.
    induction 1 as [|f rf fs rfs Hc _ IH]; [reflexivity|].
    destruct rf as [[[fin rsv] op] chunks]. cbn [chunked] in Hc. destruct Hc as (_ & _ & _ & Hcc).
    unfold allchunks in *. cbn [map snd List.concat]. rewrite concat_app, IH, Hcc. reflexivity.
  Qed.

  (* an uncompressed message (RSV1 clear): payload verbatim, PMCE object untouched *)
  Lemma recv_conts_u pls : forall (st : rs_t) p rfs more,
    pls <> [] ->
    r_pmce st = Some p -> r_inside st = true -> r_compressed st = false ->
    Forall2 chunked (mk_conts pls) rfs ->
    recvFs st (rfs ++ more) =
      let st2 := {| r_pmce := Some p; r_inside := false; r_compressed := false; r_binary := r_binary st; r_data := [] |} in
      (fst (recvFs st2 more), Delivered (r_data st ++ List.concat pls) (r_binary st) :: snd (recvFs st2 more)).
  Proof.
    induction pls as [|pl r IH]; intros st p rfs more Hne Hp Hi Hc Hch; [contradiction|].
    cbn [mk_conts] in Hch. inversion Hch as [|f rf fs rfs' Hrf Hrest]; subst. clear Hch.
    destruct rf as [[[fin rsv] opcode] chunks]. cbn [chunked f_fin f_rsv f_opcode f_payload] in Hrf.
    destruct Hrf as (-> & -> & -> & Hcc).
    rewrite <- app_comm_cons, recvFs_cons, (recvF_cont st p _ chunks Hp Hi). unfold after_begin.
    rewrite Hp, Hc, Hcc.
    destruct r as [|pl2 r2].
    - inversion Hrest; subst. cbn [app List.concat]. rewrite app_nil_r. reflexivity.
    - set (st1 := {| r_pmce := Some p; r_inside := true; r_compressed := false;
                     r_binary := r_binary st; r_data := r_data st ++ pl |}).
      rewrite (IH st1 p rfs' more); try reflexivity; try assumption; [|discriminate].
      cbn [app fst snd r_binary r_data st1 List.concat]. rewrite <- app_assoc. reflexivity.
  Qed.

  Lemma recv_msg_u pls (st : rs_t) p rfs more opcode :
    pls <> [] -> (opcode = 1 \/ opcode = 2)%N ->
    r_pmce st = Some p -> r_inside st = false ->
    Forall2 chunked (mk_frames opcode 0 pls) rfs ->
    recvFs st (rfs ++ more) =
      let st2 := {| r_pmce := Some p; r_inside := false; r_compressed := false; r_binary := (opcode =? 2)%N; r_data := [] |} in
      (fst (recvFs st2 more), Delivered (List.concat pls) (opcode =? 2)%N :: snd (recvFs st2 more)).
  Proof.
    intros Hne Ho Hp Hi Hch. destruct pls as [|pl r]; [contradiction|].
    cbn [mk_frames] in Hch. inversion Hch as [|f rf fs rfs' Hrf Hrest]; subst. clear Hch.
    destruct rf as [[[fin rsv] op] chunks]. cbn [chunked f_fin f_rsv f_opcode f_payload] in Hrf.
    destruct Hrf as (-> & -> & -> & Hcc).
    rewrite <- app_comm_cons, recvFs_cons, (recvF_first st p _ 0 opcode chunks Hp Hi Ho (or_introl eq_refl)).
    cbn [N.eqb]. unfold after_begin. rewrite Hcc.
    destruct r as [|pl2 r2].
    - inversion Hrest; subst. cbn [app List.concat]. rewrite app_nil_r. reflexivity.
    - set (st1 := {| r_pmce := Some p; r_inside := true; r_compressed := false;
                     r_binary := (opcode =? 2)%N; r_data := [] ++ pl |}).
      rewrite (recv_conts_u (pl2 :: r2) st1 p rfs' more); try reflexivity; try assumption.
      discriminate.
  Qed.

  (* ---- sender side, exact ---- *)
  Definition opc (b : bool) : N := if b then 2%N else 1%N.
  Definition frag_wf (frag : option Z) : Prop := match frag with Some pfs => 1 <= pfs | None => True end.

  Lemma fragment_shape opcode rsv frag pl : frag_wf frag ->
    exists pls, pls <> [] /\ List.concat pls = pl /\ fragment_message opcode rsv frag pl = inl (mk_frames opcode rsv pls).
  Proof.
    intros Hw. unfold fragment_message. destruct frag as [pfs|].
    - cbn in Hw. destruct (Z.of_nat (List.length pl) <=? pfs) eqn:E.
      + exists [pl]. split; [discriminate|]. split; [cbn; apply app_nil_r | reflexivity].
      + replace (pfs <? 1) with false by (symmetry; apply Z.ltb_ge; lia).
        assert (Hp : (0 < Z.to_nat pfs)%nat) by lia.
        destruct (frag_loop_shape opcode rsv (Z.to_nat pfs) Hp (S (List.length pl)) pl (Nat.lt_succ_diag_r _))
          as (pls & Hne & Hc & _ & H2).
        exists pls. rewrite H2. auto.
    - exists [pl]. split; [discriminate|]. split; [cbn; apply app_nil_r | reflexivity].
  Qed.

  Definition send_one (pm : option pm_t) (m : msg_spec) : option pm_t * (list frame + send_err) :=
    match m with
    | MWhole pl b frag dnc => sendM pm pl b frag dnc
    | MStream ps b dnc =>
        match sendS pm ps b dnc with
        | Ok (pm', fs) => (pm', inl fs)
        | Raise e => (pm, inr (SE e))
        end
    end.
  Lemma sendMs_cons pm m r :
    sendMs pm (m :: r) =
      match send_one pm m with
      | (_, inr e) => SendRaised CS DS e []
      | (pm', inl fs) =>
          match sendMs pm' r with
          | Sent _ _ pm'' fss => Sent CS DS pm'' (fs :: fss)
          | SendRaised _ _ e fss => SendRaised CS DS e (fs :: fss)
          end
      end.
  Proof. destruct m; reflexivity. Qed.

  Definition pieces (m : msg_spec) : list bytes := match m with MWhole p _ _ _ => [p] | MStream ps _ _ => ps end.
  Definition msg_dnc (m : msg_spec) : bool := match m with MWhole _ _ _ d => d | MStream _ _ d => d end.
  Lemma concat_pieces m : List.concat (pieces m) = msg_payload m.
  Proof. destruct m; cbn; [apply app_nil_r | reflexivity]. Qed.

  Lemma set_comp_same (p : pm_t) g cs : p_comp p = HLive g cs -> set_comp p (HLive g cs) (p_gen p) = p.
  Proof. destruct p. cbn. intros ->. reflexivity. Qed.

  Lemma streamF_conts ps0 opcode : forall (p : pm_t) g cs ps' final,
    p_comp p = HLive g cs ->
    endC (set_comp p (HLive g (fst (crun cs ps0))) (p_gen p)) = Ok (ps', final) ->
    streamF (Some p) true false opcode ps0 = Ok (Some ps', mk_conts (snd (crun cs ps0) ++ [final])).
  Proof.
    induction ps0 as [|y r IH]; intros p g cs ps' final Hl He; cbn [stream_frames c_run_data].
    - cbn [c_run_data fst] in He. rewrite (set_comp_same p g cs Hl) in He. rewrite He. reflexivity.
    - rewrite (compD_live CS DS c_compress p g cs y Hl). cbn [bind]. cbn [c_run_data] in He.
      destruct (c_compress cs y) as [cs1 o] eqn:Ec. destruct (crun cs1 r) as [cs2 os] eqn:Er. cbn [fst snd] in *.
      rewrite (IH (set_comp p (HLive g cs1) (p_gen p)) g cs1 ps' final eq_refl).
      + rewrite Er. cbn [bind snd app mk_conts andb]. destruct (os ++ [final]) eqn:E; [now destruct os|]. reflexivity.
      + rewrite Er. exact He.
  Qed.

  Lemma send_one_c (ps : pm_t) m g cs ps' final :
    msg_wf m -> msg_dnc m = false -> p_comp (startC ps) = HLive g cs ->
    endC (set_comp (startC ps) (HLive g (fst (crun cs (pieces m)))) (p_gen (startC ps))) = Ok (ps', final) ->
    exists pls, pls <> [] /\ List.concat pls = List.concat (snd (crun cs (pieces m))) ++ final /\
                send_one (Some ps) m = (Some ps', inl (mk_frames (opc (msg_binary m)) 4 pls)).
  Proof.
    intros Hw Hd Hl He. destruct m as [pl b frag dnc | pcs b dnc]; cbn [msg_dnc] in Hd; subst dnc;
      cbn [pieces msg_binary send_one] in *.
    - unfold send_message. rewrite (compD_live CS DS c_compress (startC ps) g cs pl Hl). cbn [bind].
      cbn [c_run_data] in *. destruct (c_compress cs pl) as [cs1 o1] eqn:Ec. cbn [fst snd List.concat] in *.
      rewrite He. cbn [bind].
      destruct (fragment_shape (opc b) 4 frag (o1 ++ final)) as (pls & Hne & Hc & Hf).
      { destruct frag; exact Hw. }
      exists pls. split; [exact Hne|]. split; [now rewrite Hc, app_nil_r|]. unfold opc in Hf. now rewrite Hf.
    - destruct pcs as [|y r]; [now contradiction Hw|]. unfold send_stream. cbn [stream_frames].
      rewrite (compD_live CS DS c_compress (startC ps) g cs y Hl). cbn [bind]. cbn [c_run_data] in *.
      destruct (c_compress cs y) as [cs1 o] eqn:Ec. destruct (crun cs1 r) as [cs2 os] eqn:Er. cbn [fst snd] in *.
      rewrite (streamF_conts r (if b then 2%N else 1%N) (set_comp (startC ps) (HLive g cs1) (p_gen (startC ps))) g cs1 ps' final eq_refl).
      + rewrite Er. cbn [bind snd andb]. exists (o :: os ++ [final]). split; [discriminate|]. split.
        * cbn [List.concat]. rewrite concat_app. cbn [List.concat]. now rewrite app_nil_r, app_assoc.
        * cbn [mk_frames]. destruct (os ++ [final]) eqn:E; [now destruct os|]. reflexivity.
      + rewrite Er. exact He.
  Qed.

  Lemma streamF_plain_shape ps0 opcode : forall (pm : option pm_t),
    streamF pm false false opcode ps0 = Ok (pm, mk_conts (ps0 ++ [[]])).
  Proof.
    induction ps0 as [|y r IH]; intros pm; cbn [stream_frames].
    - destruct pm; reflexivity.
    - assert (H : streamF pm false false opcode r = Ok (pm, mk_conts (r ++ [[]]))) by apply IH.
      destruct pm; rewrite H; cbn [bind app mk_conts andb]; (destruct (r ++ [[]]) eqn:E; [now destruct r | reflexivity]).
  Qed.

  Lemma send_one_u (ps : pm_t) m :
    msg_wf m -> msg_dnc m = true ->
    exists pls, pls <> [] /\ List.concat pls = msg_payload m /\
                send_one (Some ps) m = (Some ps, inl (mk_frames (opc (msg_binary m)) 0 pls)).
  Proof.
    intros Hw Hd. destruct m as [pl b frag dnc | pcs b dnc]; cbn [msg_dnc] in Hd; subst dnc;
      cbn [msg_payload msg_binary send_one] in *.
    - unfold send_message.
      destruct (fragment_shape (opc b) 0 frag pl) as (pls & Hne & Hc & Hf). { destruct frag; exact Hw. }
      exists pls. split; [exact Hne|]. split; [exact Hc|]. unfold opc in Hf. now rewrite Hf.
    - destruct pcs as [|y r]; [now contradiction Hw|]. unfold send_stream. cbn [stream_frames].
      rewrite (streamF_plain_shape r (if b then 2%N else 1%N) (Some ps)). cbn [bind andb].
      exists (y :: r ++ [[]]). split; [discriminate|]. split.
      + cbn [List.concat]. rewrite concat_app. cbn [List.concat]. now rewrite !app_nil_r.
      + cbn [mk_frames]. destruct (r ++ [[]]) eqn:E; [now destruct r | reflexivity].
  Qed.

  (* ---- the two ends in step ---- *)
  Definition boundary (ps pr : pm_t) : Prop :=
    (p_comp ps = HNone /\ p_decomp pr = HNone) \/
    (exists g cs g' ds, p_comp ps = HLive g cs /\ p_decomp pr = HLive g' ds /\ R (p_decomp_w pr) cs ds) \/
    (exists g g', p_comp ps = HFinished g /\ p_decomp pr = HFinished g' /\
                  dc_start_nct (disc_of x) && p_comp_nct ps = true /\ dc_start_nct (disc_of x) && p_decomp_nct pr = true).

  Record J (ps pr : pm_t) : Prop := {
    j_disc_s : p_disc ps = disc_of x;
    j_disc_r : p_disc pr = disc_of x;
    j_compat : compat (p_comp_w ps) (p_decomp_w pr) = true;
    j_nct : p_decomp_nct pr = true -> p_comp_nct ps = true;
    j_safe : typestate_safe (disc_of x) (p_comp_nct ps) (p_decomp_nct pr) = true;
    j_boundary : boundary ps pr }.

  Lemma start_both ps pr : J ps pr ->
    exists g cs g' ds, p_comp (startC ps) = HLive g cs /\ p_decomp (startD pr) = HLive g' ds /\ R (p_decomp_w pr) cs ds.
  Proof.
    intros [Hds Hdr Hc Hn Hs Hb]. unfold start_compress, start_decompress. rewrite Hds, Hdr.
    destruct Hb as [[H1 H2]|[(g & cs & g' & ds & H1 & H2 & HR)|(g & g' & H1 & H2 & H3 & H4)]]; rewrite H1, H2; cbn [is_none orb]; rewrite ?H3, ?H4.
    - eexists _, _, _, _. split; [reflexivity|]. split; [reflexivity|].
      apply (law_new _ _ _ _ _ _ _ _ _ _ law). exact Hc.
    - destruct (dc_start_nct (disc_of x)); cbn [andb]; [|eauto 10].
      destruct (p_comp_nct ps) eqn:Ec; destruct (p_decomp_nct pr) eqn:Ed.
      + eexists _, _, _, _. split; [reflexivity|]. split; [reflexivity|].
        apply (law_new _ _ _ _ _ _ _ _ _ _ law). exact Hc.
      + eexists _, _, _, _. split; [reflexivity|]. split; [exact H2|].
        apply (law_restart _ _ _ _ _ _ _ _ _ _ law _ cs); assumption.
      + specialize (Hn eq_refl). discriminate.
      + eauto 10.
    - eexists _, _, _, _. split; [reflexivity|]. split; [reflexivity|].
      apply (law_new _ _ _ _ _ _ _ _ _ _ law). exact Hc.
  Qed.


  Lemma strip4_tail b : strip4 (b ++ tail4) = b.
  Proof.
    unfold strip4. rewrite app_length. cbn [List.length tail4].
    replace (List.length b + 4 - 4)%nat with (List.length b) by lia.
    rewrite firstn_app, firstn_all, Nat.sub_diag. cbn [firstn]. apply app_nil_r.
  Qed.

  (* end of a compressed message on both ends: the wire octets decode to the message, and the ends are in step again *)
  Lemma end_pair (p1 q0 : pm_t) g cs1 g' ds cs xs outs :
    p_disc p1 = disc_of x -> p_disc q0 = disc_of x ->
    p_comp p1 = HLive g cs1 -> p_decomp q0 = HLive g' ds ->
    crun cs xs = (cs1, outs) -> R (p_decomp_w q0) cs ds ->
    typestate_safe (disc_of x) (p_comp_nct p1) (p_decomp_nct q0) = true ->
    exists ps' final ds1 p2,
      endC p1 = Ok (ps', final) /\
      (forall pieces, forallb nonempty pieces = true -> List.concat pieces = List.concat outs ++ final ->
                      feed_seq DS d_feed ds pieces = Some (ds1, List.concat xs)) /\
      endD (set_decomp q0 (HLive g' ds1) (p_gen q0)) = Ok p2 /\
      same_cfg CS DS p1 ps' /\ same_cfg CS DS q0 p2 /\ boundary ps' p2.
  Proof.
    intros Hd1 Hd2 Hl1 Hl2 Hrun HR Hsafe.
    pose proof (law_msg _ _ _ _ _ _ _ _ _ _ law (p_decomp_w q0) cs ds xs HR) as L. rewrite Hrun in L.
    rewrite (endC_live CS DS c_flush p1 g cs1 Hl1). unfold end_decompress.
    cbn [p_decomp p_disc p_gen set_decomp]. rewrite Hd1, Hd2.
    unfold typestate_safe, end_safe in Hsafe.
    destruct x eqn:Ex; cbn [disc_of disc_deflate disc_bzip2 disc_brotli disc_snappy dc_flush dc_tail dc_comp_end dc_decomp_end
                     dc_start_nct dc_empty_guard negb end_handle] in *.
    - (* deflate *)
      destruct (c_flush cs1) as [cs2 o2]. destruct L as (b2 & ds1 & ds2 & junk & -> & Hf & Ht & HR2).
      eexists _, b2, ds1, _. cbn [fst snd]. rewrite strip4_tail, Ht.
      split; [reflexivity|]. split; [exact Hf|]. split; [reflexivity|].
      split; [apply same_cfg_set_comp|]. split; [repeat split|].
      right. left. exists g, cs2, g', ds2. repeat split. exact HR2.
    - (* bzip2 *)
      destruct (c_flush cs1) as [cs2 o2]. destruct L as (ds1 & Hf & HR2).
      eexists _, o2, ds1, _. cbn [fst snd].
      split; [reflexivity|]. split; [exact Hf|]. split; [reflexivity|].
      split; [apply same_cfg_set_comp|]. split; [repeat split|]. left. split; reflexivity.
    - (* brotli: both objects dropped, like bzip2 *)
      destruct (c_flush cs1) as [cs2 o2]. destruct L as (ds1 & Hf & HR2).
      eexists _, o2, ds1, _. cbn [fst snd].
      split; [reflexivity|]. split; [exact Hf|]. split; [reflexivity|].
      split; [apply same_cfg_set_comp|]. split; [repeat split|]. left. split; reflexivity.
    - (* snappy: nothing is flushed, both handles stay *)
      destruct L as (ds1 & Hf & HR2).
      eexists p1, [], ds1, _.
      split; [reflexivity|]. split; [exact Hf|]. split; [reflexivity|].
      split; [apply same_cfg_refl|]. split; [repeat split|].
      right. left. exists g, cs1, g', ds1. repeat split; [exact Hl1 | exact HR2].
  Qed.

  Lemma J_cfg ps pr ps' pr' : J ps pr -> same_cfg CS DS ps ps' -> same_cfg CS DS pr pr' -> boundary ps' pr' -> J ps' pr'.
  Proof.
    intros [Hds Hdr Hc Hn Hs _] (A1 & A2 & A3 & A4 & A5 & A6) (B1 & B2 & B3 & B4 & B5 & B6) Hb.
    constructor.
    - congruence.
    - congruence.
    - rewrite A2, B5. exact Hc.
    - rewrite A4, B6. exact Hn.
    - rewrite A4, B6. exact Hs.
    - exact Hb.
  Qed.

  Definition delivered (m : msg_spec) : revent := Delivered (msg_payload m) (msg_binary m).
  Lemma opc_binary b : (opc b =? 2)%N = b. Proof. now destruct b. Qed.
  Lemma opc_data b : (opc b = 1 \/ opc b = 2)%N. Proof. destruct b; cbn; auto. Qed.

  (* one message, end to end *)
  Lemma message_lossless ps pr m :
    J ps pr -> msg_wf m ->
    exists ps' pr' fs,
      send_one (Some ps) m = (Some ps', inl fs) /\ J ps' pr' /\
      forall (st : rs_t) rfs more,
        r_pmce st = Some pr -> r_inside st = false -> Forall2 chunked fs rfs ->
        exists st2, r_pmce st2 = Some pr' /\ r_inside st2 = false /\
                    recvFs st (rfs ++ more) = (fst (recvFs st2 more), delivered m :: snd (recvFs st2 more)).
  Proof.
    intros HJ Hw. destruct (msg_dnc m) eqn:Ednc.
    - (* doNotCompress: verbatim, both PMCE objects untouched *)
      destruct (send_one_u ps m Hw Ednc) as (pls & Hne & Hc & Hs).
      exists ps, pr, (mk_frames (opc (msg_binary m)) 0 pls). split; [exact Hs|]. split; [exact HJ|].
      intros st rfs more Hp Hi Hch.
      eexists. split; [|split]; [| |rewrite (recv_msg_u pls st pr rfs more (opc (msg_binary m)) Hne (opc_data _) Hp Hi Hch)].
      3:{ cbv zeta. unfold delivered. rewrite Hc, opc_binary. reflexivity. }
      all: reflexivity.
    - destruct (start_both ps pr HJ) as (g & cs & g' & ds & Hl1 & Hl2 & HR).
      destruct (startC_cfg CS DS c_new ps) as [Hcs _]. destruct (startD_cfg CS DS d_new pr) as [Hcr _].
      destruct (crun cs (pieces m)) as [cs1 outs] eqn:Erun.
      set (p1 := set_comp (startC ps) (HLive g cs1) (p_gen (startC ps))).
      assert (Hc1 : same_cfg CS DS ps p1) by (eapply same_cfg_trans; [exact Hcs | apply same_cfg_set_comp]).
      destruct HJ as [Hds Hdr Hcompat Hn Hsafe Hb].
      destruct Hc1 as (A1 & A2 & A3 & A4 & A5 & A6). destruct Hcr as (B1 & B2 & B3 & B4 & B5 & B6).
      assert (E1 : p_disc p1 = disc_of x) by congruence.
      assert (E2 : p_disc (startD pr) = disc_of x) by congruence.
      assert (E3 : R (p_decomp_w (startD pr)) cs ds) by (rewrite B5; exact HR).
      assert (E4 : typestate_safe (disc_of x) (p_comp_nct p1) (p_decomp_nct (startD pr)) = true)
        by (rewrite A4, B6; exact Hsafe).
      destruct (end_pair p1 (startD pr) g cs1 g' ds cs (pieces m) outs E1 E2 eq_refl Hl2 Erun E3 E4)
        as (ps' & final & ds1 & p2 & He & Hf & Hed & Hc2 & Hc3 & Hb').
      destruct (send_one_c ps m g cs ps' final Hw Ednc Hl1) as (pls & Hne & Hc & Hs).
      { rewrite Erun. exact He. }
      rewrite Erun in Hc. cbn [snd] in Hc.
      exists ps', p2, (mk_frames (opc (msg_binary m)) 4 pls). split; [exact Hs|]. split.
      { apply (J_cfg ps pr); [constructor; assumption | | | exact Hb'].
        - eapply same_cfg_trans; [|exact Hc2]. repeat split; assumption.
        - eapply same_cfg_trans; [|exact Hc3]. repeat split; assumption. }
      intros st rfs more Hp Hi Hch.
      assert (Hfeed : feedC (startD pr) (allchunks rfs) =
                      Ok (set_decomp (startD pr) (HLive g' ds1) (p_gen (startD pr)), List.concat (pieces m))).
      { apply (feedC_seq (allchunks rfs) (startD pr) g' ds ds1 _ Hl2 E2). apply Hf; [apply filter_nonempty_ok|].
        rewrite concat_filter_nonempty, (chunked_concat _ _ Hch), mk_frames_payloads. exact Hc. }
      eexists. split; [|split];
        [| |rewrite (recv_msg_c pls st pr rfs more _ (List.concat (pieces m)) p2 (opc (msg_binary m)) Hne (opc_data _) Hp Hi Hch Hfeed Hed)].
      3:{ cbv zeta. unfold delivered. rewrite concat_pieces, opc_binary. reflexivity. }
      all: reflexivity.
  Qed.

  Theorem lossless_run ms : forall ps pr,
    J ps pr -> Forall msg_wf ms ->
    exists ps' fss,
      sendMs (Some ps) ms = Sent CS DS (Some ps') fss /\
      forall (st : rs_t) rfss,
        r_pmce st = Some pr -> r_inside st = false -> Forall2 (Forall2 chunked) fss rfss ->
        snd (recvFs st (List.concat rfss)) = map delivered ms.
  Proof.
    induction ms as [|m r IH]; intros ps pr HJ Hw.
    - exists ps, []. split; [reflexivity|]. intros st rfss _ _ HF. inversion HF; subst. reflexivity.
    - inversion Hw as [|? ? Hwm Hwr]; subst.
      destruct (message_lossless ps pr m HJ Hwm) as (ps1 & pr1 & fs & Hs & HJ1 & Hrecv).
      destruct (IH ps1 pr1 HJ1 Hwr) as (ps2 & fss & Hss & Hrr).
      exists ps2, (fs :: fss). split.
      + rewrite sendMs_cons, Hs, Hss. reflexivity.
      + intros st rfss Hp Hi HF. inversion HF as [|? rfs ? rfss' Hch Hrest]; subst.
        cbn [List.concat map].
        destruct (Hrecv st rfs (List.concat rfss') Hp Hi Hch) as (st2 & Hp2 & Hi2 & Heq).
        rewrite Heq. cbn [snd]. f_equal. apply Hrr; assumption.
  Qed.
End Lossless.

(* ------------------------------------------------------------------------------------------------ *)
(** * corollaries in closed form *)

Lemma J_init CS DS x compat R d cw mem cnct dw' dnct' cw' mem' cnct' dw dnct :
  d = disc_of x -> compat cw dw = true -> (dnct = true -> cnct = true) -> typestate_safe d cnct dnct = true ->
  J CS DS x compat R (pmce_init CS DS d cw mem cnct dw' dnct') (pmce_init CS DS d cw' mem' cnct' dw dnct).
Proof.
  intros -> Hc Hn Hs. constructor; cbn; try assumption; try reflexivity. left. split; reflexivity.
Qed.

(* any extension: a sender and a receiver object created from compatible parameters *)
Lemma typestate_safe_all x cnct dnct : typestate_safe (disc_of x) cnct dnct = true.
Proof. destruct x; reflexivity. Qed.

Lemma lossless_init CS DS c_new c_compress c_flush d_new d_feed x compat R :
  codec_law CS DS c_new c_compress c_flush d_new d_feed (disc_of x) compat R ->
  forall cw mem cnct dw' dnct' cw' mem' cnct' dw dnct,
  compat cw dw = true -> (dnct = true -> cnct = true) ->
  forall ms, Forall msg_wf ms ->
  exists ps' fss,
    send_msgs CS DS c_new c_compress c_flush (Some (pmce_init CS DS (disc_of x) cw mem cnct dw' dnct')) ms
      = Sent CS DS (Some ps') fss /\
    forall rfss, Forall2 (Forall2 chunked) fss rfss ->
      snd (recv_frames CS DS d_new d_feed (rstate_init CS DS (Some (pmce_init CS DS (disc_of x) cw' mem' cnct' dw dnct)))
                       (List.concat rfss))
      = map (fun m => Delivered (msg_payload m) (msg_binary m)) ms.
Proof.
  intros law cw mem cnct dw' dnct' cw' mem' cnct' dw dnct Hc Hn ms Hw.
  pose proof (typestate_safe_all x cnct dnct) as Hs.
  destruct (lossless_run CS DS c_new c_compress c_flush d_new d_feed x compat R law ms _ _
              (J_init CS DS x compat R _ cw mem cnct dw' dnct' cw' mem' cnct' dw dnct eq_refl Hc Hn Hs) Hw)
    as (ps' & fss & Hs1 & Hr).
  exists ps', fss. split; [exact Hs1|]. intros rfss HF. apply Hr; [reflexivity | reflexivity | exact HF].
Qed.

(* deflate as negotiated by the real handshake, both directions *)
Lemma lossless_negotiated_deflate CS DS c_new c_compress c_flush d_new d_feed R :
  codec_law CS DS c_new c_compress c_flush d_new d_feed disc_deflate Z.leb R ->
  forall py_int a ra,
  int_law py_int window_permissible ->
  d_offer_ok (a_offer a) -> d_accept_ok a -> d_raccept_ok ra ->
  d_response_parse py_int (params_of_tokens (d_accept_string a)) = Ok (ra_response ra) ->
  let s := d_from_offer_accept true a in
  let c := d_from_response_accept false ra in
  forall ms, Forall msg_wf ms ->
  (exists ps' fss,
    send_msgs CS DS c_new c_compress c_flush (Some (pmce_of_deflate CS DS s)) ms = Sent CS DS (Some ps') fss /\
    forall rfss, Forall2 (Forall2 chunked) fss rfss ->
      snd (recv_frames CS DS d_new d_feed (rstate_init CS DS (Some (pmce_of_deflate CS DS c))) (List.concat rfss))
      = map (fun m => Delivered (msg_payload m) (msg_binary m)) ms) /\
  (exists ps' fss,
    send_msgs CS DS c_new c_compress c_flush (Some (pmce_of_deflate CS DS c)) ms = Sent CS DS (Some ps') fss /\
    forall rfss, Forall2 (Forall2 chunked) fss rfss ->
      snd (recv_frames CS DS d_new d_feed (rstate_init CS DS (Some (pmce_of_deflate CS DS s))) (List.concat rfss))
      = map (fun m => Delivered (msg_payload m) (msg_binary m)) ms).
Proof.
  intros law py_int a ra Hint Ho Ha Hra Hp s c ms Hw.
  destruct (negotiation_sound py_int a ra Hint Ho Ha Hra Hp) as [[W1 N1 _ _ _] [W2 N2 _ _ _]].
  fold s in W1, N1, W2, N2. fold c in W1, N1, W2, N2.
  split; unfold pmce_of_deflate;
    apply (lossless_init CS DS c_new c_compress c_flush d_new d_feed XDeflate Z.leb R law); try assumption;
    apply Z.leb_le; assumption.
Qed.

(* ---- typestate, closed form ---- *)
Lemma typestate_send_init CS DS c_new c_compress c_flush x cw mem cnct dw dnct ms :
  end_safe (dc_comp_end (disc_of x)) (dc_start_nct (disc_of x)) cnct = true ->
  ~ typestate_error_send CS DS (send_msgs CS DS c_new c_compress c_flush
                                          (Some (pmce_init CS DS (disc_of x) cw mem cnct dw dnct)) ms).
Proof.
  intros Hs. apply typestate_send. split; [exact I | exact Hs].
Qed.

Lemma typestate_recv_init CS DS d_new d_feed x cw mem cnct dw dnct fs :
  end_safe (dc_decomp_end (disc_of x)) (dc_start_nct (disc_of x)) dnct = true ->
  ~ typestate_error_recv (snd (recv_frames CS DS d_new d_feed
                                 (rstate_init CS DS (Some (pmce_init CS DS (disc_of x) cw mem cnct dw dnct))) fs)).
Proof.
  intros Hs. apply ev_clean_no_typestate. apply typestate_recv. split; [exact Hs | exact I].
Qed.

Lemma end_safe_all x nct :
  end_safe (dc_comp_end (disc_of x)) (dc_start_nct (disc_of x)) nct = true /\
  end_safe (dc_decomp_end (disc_of x)) (dc_start_nct (disc_of x)) nct = true.
Proof. destruct x; split; reflexivity. Qed.

(* every extension that ends its stream per message (bzip2, brotli) drops both library objects at the end of the message:
   the next message gets fresh ones whatever no_context_takeover says *)
Lemma stream_per_message_drops CS DS c_flush d_feed x (p : pmce CS DS) :
  x = XBzip2 \/ x = XBrotli -> p_disc p = disc_of x ->
  (forall g cs, p_comp p = HLive g cs ->
     exists p' out, end_compress CS DS c_flush p = Ok (p', out) /\ p_comp p' = HNone) /\
  (forall g ds, p_decomp p = HLive g ds ->
     exists p', end_decompress CS DS d_feed p = Ok p' /\ p_decomp p' = HNone).
Proof.
  intros Hx Hd. split.
  - intros g cs Hl. rewrite (endC_live CS DS c_flush p g cs Hl), Hd.
    destruct Hx as [-> | ->]; cbn; eexists _, _; split; reflexivity.
  - intros g ds Hl. unfold end_decompress. rewrite Hd.
    destruct Hx as [-> | ->]; cbn; eexists; split; reflexivity.
Qed.

(* what the brotli fix (444bd7d4) repaired: with the former discipline - finish() and keep the object - and context
   takeover (the default), the compressor object is finished by the first message and reused *)
Lemma brotli_second_send_fails CS DS c_new c_compress c_flush cw mem dw dnct m1 b1 v m2 b2 :
  exists first,
    send_msgs CS DS c_new c_compress c_flush (Some (pmce_init CS DS disc_brotli_before_fix cw mem false dw dnct))
              [MWhole m1 b1 None false; MWhole (v :: m2) b2 None false]
    = SendRaised CS DS (SE (ETypestate OnFinished)) [first].
Proof.
  cbv. destruct (c_compress (c_new cw mem) m1) as [cs1 o1]. destruct (c_flush cs1) as [cs2 o2]. eauto.
Qed.

Lemma brotli_second_recv_fails CS DS d_new d_feed cw mem cnct dw p1 v p2 ds1 o1 :
  d_feed (d_new dw) p1 = Some (ds1, o1) ->
  snd (recv_frames CS DS d_new d_feed (rstate_init CS DS (Some (pmce_init CS DS disc_brotli_before_fix cw mem cnct dw false)))
                   [(true, 4%N, 2%N, [p1]); (true, 4%N, 2%N, [v :: p2])])
  = [Delivered (o1 ++ []) true; Escaped (ETypestate OnFinished)].
Proof. intros H. cbv. cbv in H. rewrite H. reflexivity. Qed.

(* ---- doNotCompress and RSV1 placement ---- *)
Lemma fragment_inv opcode rsv frag pl fs :
  fragment_message opcode rsv frag pl = inl fs ->
  exists pls, pls <> [] /\ List.concat pls = pl /\ fs = mk_frames opcode rsv pls.
Proof.
  unfold fragment_message. destruct frag as [pfs|].
  - destruct (Z.of_nat (List.length pl) <=? pfs) eqn:E.
    + intros H. inversion H. exists [pl]. split; [discriminate|]. split; [cbn; apply app_nil_r | reflexivity].
    + destruct (pfs <? 1) eqn:E1; [discriminate|]. apply Z.ltb_ge in E1. intros H. inversion H.
      assert (Hp : (0 < Z.to_nat pfs)%nat) by lia.
      destruct (frag_loop_shape opcode rsv (Z.to_nat pfs) Hp (S (List.length pl)) pl (Nat.lt_succ_diag_r _))
        as (pls & Hne & Hc & _ & H2).
      exists pls. auto.
  - intros H. inversion H. exists [pl]. split; [discriminate|]. split; [cbn; apply app_nil_r | reflexivity].
Qed.

Lemma mk_conts_props pls :
  Forall (fun f => f_rsv f = 0%N /\ f_opcode f = 0%N) (mk_conts pls) /\ List.concat (map f_payload (mk_conts pls)) = List.concat pls.
Proof.
  induction pls as [|p r [IH1 IH2]]; cbn [mk_conts map List.concat]; [split; [constructor | reflexivity]|].
  split; [constructor; [split; reflexivity | exact IH1] | cbn [f_payload]; now rewrite IH2].
Qed.

(* shape of every message that sendMessage puts on the wire *)
Lemma send_message_shape CS DS c_new c_compress c_flush pm payload b frag dnc pm' fs :
  send_message CS DS c_new c_compress c_flush pm payload b frag dnc = (pm', inl fs) ->
  exists f rest, fs = f :: rest /\
    f_opcode f = (if b then 2%N else 1%N) /\
    f_rsv f = (match pm with Some _ => if dnc then 0%N else 4%N | None => 0%N end) /\
    Forall (fun g => f_rsv g = 0%N /\ f_opcode g = 0%N) rest.
Proof.
  unfold send_message.
  assert (Hgen : forall (pm1 : option (pmce CS DS)) (c : bool) pl,
             (pm1, fragment_message (if b then 2%N else 1%N) (if c then 4%N else 0%N) frag pl) = (pm', inl fs) ->
             exists f rest, fs = f :: rest /\ f_opcode f = (if b then 2%N else 1%N) /\ f_rsv f = (if c then 4%N else 0%N) /\
                            Forall (fun g => f_rsv g = 0%N /\ f_opcode g = 0%N) rest).
  { intros pm1 c pl H. inversion H as [[H1 H2]]. apply fragment_inv in H2. destruct H2 as (pls & Hne & _ & ->).
    destruct pls as [|p r]; [contradiction|]. cbn [mk_frames]. eexists _, _. split; [reflexivity|].
    cbn [f_opcode f_rsv]. repeat split. apply mk_conts_props. }
  destruct pm as [p|]; [destruct dnc|]; try (intros H; apply (Hgen _ false _ H)).
  destruct (compress_data CS DS c_compress (start_compress CS DS c_new p) payload) as [[p1 o1]|e]; cbn [bind]; [|discriminate].
  destruct (end_compress CS DS c_flush p1) as [[p2 o2]|e]; cbn [bind]; [|discriminate].
  intros H. apply (Hgen _ true _ H).
Qed.

Lemma do_not_compress CS DS c_new c_compress c_flush pm payload b frag :
  match frag with Some pfs => 1 <= pfs | None => True end ->
  exists fs, send_message CS DS c_new c_compress c_flush pm payload b frag true = (pm, inl fs) /\
             Forall (fun f => f_rsv f = 0%N) fs /\ List.concat (map f_payload fs) = payload.
Proof.
  intros Hw. unfold send_message.
  assert (Hstep : forall X : option (pmce CS DS) * (list frame + send_err) -> Prop,
            X (pm, fragment_message (if b then 2%N else 1%N) 0%N frag payload) ->
            X (match (match pm with Some _ => Ok (pm, false, payload) | None => Ok (pm, false, payload) end) with
               | Raise e => (pm, inr (SE e))
               | Ok (pm', compressed, pl) => (pm', fragment_message (if b then 2%N else 1%N) (if compressed then 4%N else 0%N) frag pl)
               end)).
  { intros X HX. destruct pm; exact HX. }
  apply Hstep. clear Hstep.
  destruct (fragment_message (if b then 2%N else 1%N) 0%N frag payload) as [fs|e] eqn:E.
  - exists fs. split; [reflexivity|]. apply fragment_inv in E. destruct E as (pls & Hne & Hc & ->).
    destruct pls as [|p r]; [contradiction|]. cbn [mk_frames map List.concat f_payload].
    destruct (mk_conts_props r) as [H1 H2]. split.
    + constructor; [reflexivity|]. eapply Forall_impl; [|exact H1]. intros f [Hf _]. exact Hf.
    + rewrite H2. exact Hc.
  - exfalso. unfold fragment_message in E. destruct frag as [pfs|]; [|discriminate].
    destruct (Z.of_nat (List.length payload) <=? pfs); [discriminate|].
    replace (pfs <? 1) with false in E by (symmetry; apply Z.ltb_ge; lia). discriminate.
Qed.

(* ---- RSV checks ---- *)
Lemma rsv_control_rejected inside opcode : (7 <? opcode)%N = true ->
  rsv_checks true inside 4 opcode = [VCompressedControl].
Proof. intros H. unfold rsv_checks. rewrite H. reflexivity. Qed.

Lemma rsv_continuation_rejected opcode : (7 <? opcode)%N = false ->
  In VCompressedContinuation (rsv_checks true true 4 opcode).
Proof.
  intros H. unfold rsv_checks. rewrite H. cbn. destruct (opcode =? 0)%N; cbn; auto.
Qed.

Lemma rsv_without_extension inside rsv opcode : rsv <> 0%N ->
  hd_error (rsv_checks false inside rsv opcode) = Some VRsvNoExtension.
Proof. intros H. unfold rsv_checks. apply N.eqb_neq in H. rewrite H. reflexivity. Qed.

Lemma rsv_other_bits pmce_on inside rsv opcode : rsv <> 0%N -> rsv <> 4%N ->
  hd_error (rsv_checks pmce_on inside rsv opcode) = Some VRsvNoExtension.
Proof.
  intros H0 H4. unfold rsv_checks. apply N.eqb_neq in H0. apply N.eqb_neq in H4. rewrite H0, H4.
  rewrite andb_false_r. reflexivity.
Qed.

Lemma rsv_first_frame_accepted opcode : (opcode = 1 \/ opcode = 2)%N -> rsv_checks true false 4 opcode = [].
Proof. intros [-> | ->]; reflexivity. Qed.

Lemma rsv_clear_accepted pmce_on : rsv_checks pmce_on true 0 0 = [] /\ rsv_checks pmce_on false 0 1 = [] /\
                                  rsv_checks pmce_on false 0 2 = [] /\ rsv_checks pmce_on false 0 9 = [].
Proof. destruct pmce_on; repeat split. Qed.

(* a frame the checks reject changes nothing and delivers nothing *)
Lemma recv_frame_rejects CS DS d_new d_feed (st : rstate CS DS) fin rsv opcode chunks v vs :
  rsv_checks (match r_pmce st with Some _ => true | None => false end) (r_inside st) rsv opcode = v :: vs ->
  recv_frame CS DS d_new d_feed st fin rsv opcode chunks = (st, [Violation v], false).
Proof. intros H. unfold recv_frame. rewrite H. reflexivity. Qed.

Lemma typestate_all CS DS c_new c_compress c_flush d_new d_feed x cw mem cnct dw dnct :
  (forall ms, ~ typestate_error_send CS DS (send_msgs CS DS c_new c_compress c_flush
                                                      (Some (pmce_init CS DS (disc_of x) cw mem cnct dw dnct)) ms)) /\
  (forall fs, ~ typestate_error_recv (snd (recv_frames CS DS d_new d_feed
                                             (rstate_init CS DS (Some (pmce_init CS DS (disc_of x) cw mem cnct dw dnct))) fs))).
Proof.
  split.
  - intros ms. apply typestate_send_init. apply (end_safe_all x cnct).
  - intros fs. apply typestate_recv_init. apply (end_safe_all x dnct).
Qed.

(* the identity codec satisfies the stream law with the deflate discipline (tail strip / re-append) *)
Lemma id_feed_seq pieces : feed_seq unit id_d_feed tt pieces = Some (tt, List.concat pieces).
Proof. induction pieces as [|c r IH]; [reflexivity|]. cbn [feed_seq id_d_feed obind List.concat]. now rewrite IH. Qed.

Lemma id_codec_law :
  codec_law unit unit id_c_new id_c_compress id_c_flush_tail id_d_new id_d_feed disc_deflate Z.leb (fun _ _ _ => True).
Proof.
  constructor; try (intros; exact I).
  - intros _ []. reflexivity.
  - intros wd [] [] xs _. cbn [disc_deflate dc_flush dc_tail].
    assert (H : forall ys, exists outs, c_run_data unit id_c_compress tt ys = (tt, outs) /\ List.concat outs = List.concat ys).
    { induction ys as [|y r [outs [E1 E2]]]; [exists []; split; reflexivity|].
      exists (y :: outs). cbn [c_run_data id_c_compress]. rewrite E1. cbn [List.concat]. split; [reflexivity | now rewrite E2]. }
    destruct (H xs) as (outs & E1 & E2). rewrite E1. cbn [id_c_flush_tail].
    exists [], tt, tt, tail4. split; [reflexivity|]. split; [|split; [reflexivity | exact I]].
    intros pieces _ Hc. rewrite id_feed_seq, Hc, app_nil_r, E2. reflexivity.
Qed.

(* The sender's fragmentation loop emits a trailing EMPTY frame whenever the fragment size divides the compressed
   length; a decompressor that refuses calls after end-of-stream (bz2) then raises on that frame: with the bzip2
   discipline and the end-of-stream strict codec the message [1;2] sent with fragmentSize 1 is not delivered. *)
Lemma eos_strict_loses_message :
  let p := pmce_init unit bool disc_bzip2_before_fix 9 0 false 0 false in
  let ms := [MWhole [1; 2]%N true (Some 1) false] in
  Forall msg_wf ms /\
  match send_msgs unit bool id_c_new id_c_compress eos_c_flush (Some p) ms with
  | Sent _ _ _ fss =>
      map (map (fun f => (f_fin f, f_rsv f, f_payload f))) fss
        = [[(false, 4%N, [1%N]); (false, 0%N, [2%N]); (false, 0%N, [255%N]); (true, 0%N, [])]] /\
      snd (recv_frames unit bool eos_d_new eos_d_feed (rstate_init unit bool (Some p))
             (map (fun f => (f_fin f, f_rsv f, f_opcode f, [f_payload f])) (List.concat fss)))
      = [Escaped ECodec]
  | SendRaised _ _ _ _ => False
  end.
Proof. split; [repeat constructor; cbn; lia | vm_compute; split; reflexivity]. Qed.

(* ... while the same codec, fragment size 2 (no trailing empty frame), delivers it *)
Lemma eos_strict_ok_without_empty_frame :
  let p := pmce_init unit bool disc_bzip2_before_fix 9 0 false 0 false in
  match send_msgs unit bool id_c_new id_c_compress eos_c_flush (Some p) [MWhole [1; 2]%N true (Some 2) false] with
  | Sent _ _ _ fss =>
      snd (recv_frames unit bool eos_d_new eos_d_feed (rstate_init unit bool (Some p))
             (map (fun f => (f_fin f, f_rsv f, f_opcode f, [f_payload f])) (List.concat fss)))
      = [Delivered [1; 2]%N true]
  | SendRaised _ _ _ _ => False
  end.
Proof. vm_compute. reflexivity. Qed.

(* ------------------------------------------------------------------------------------------------ *)
(** * negotiation of the other extensions *)

(* brotli / snappy: the client reads the server's string back, and per direction a per-message decompressor implies a
   per-message compressor (all 2^2 x 2 x 3 x 3 points by case analysis) *)
Lemma n_negotiation_sound a ra :
  n_accept_ctor (na_offer a) (na_req_nct a) (na_nct a) = Ok a ->
  n_raccept_ctor (nra_response ra) (nra_nct ra) = Ok ra ->
  n_response_parse (params_of_tokens (n_accept_string a)) = Ok (nra_response ra) ->
  let s := n_from_offer_accept true a in
  let c := n_from_response_accept false ra in
  nra_response ra = {| nr_client_nct := na_req_nct a; nr_server_nct := no_req_nct (na_offer a) |} /\
  (n_decomp_nct c = true -> n_comp_nct s = true) /\ (n_decomp_nct s = true -> n_comp_nct c = true).
Proof.
  destruct a as [[oa orq] rq nct]. destruct ra as [[rc rs] rn].
  destruct oa, orq, rq, nct as [[|]|], rc, rs, rn as [[|]|]; vm_compute; intros H1 H2 H3;
    try discriminate H1; try discriminate H2; try discriminate H3; repeat split; intros; congruence.
Qed.

(* bzip2: each side's compression level is a value bz2 accepts and respects the maximum the peer asked for *)
Lemma level_range l : permissible level_permissible l = true -> 0 < l <= default_compress_level.
Proof.
  intros H. apply permissible_In in H.
  pose proof (proj1 (forallb_forall _ _) level_range_check l H) as Hc.
  apply andb_true_iff in Hc. destruct Hc as [H1 H2]. apply Z.ltb_lt in H1. apply Z.leb_le in H2. lia.
Qed.
Lemma default_level_permissible : permissible level_permissible default_compress_level = true.
Proof. vm_compute. reflexivity. Qed.

Lemma b_negotiation_sound py_int a ra :
  int_law py_int level_permissible ->
  b_offer_ctor (bo_acc_mcl (ba_offer a)) (bo_req_mcl (ba_offer a)) = Ok (ba_offer a) ->
  b_accept_ctor (ba_offer a) (ba_req_mcl a) (ba_level a) = Ok a ->
  b_raccept_ctor (bra_response ra) (bra_level ra) = Ok ra ->
  b_response_parse py_int (params_of_tokens (b_accept_string a)) = Ok (bra_response ra) ->
  let s := b_from_offer_accept true a in
  let c := b_from_response_accept false ra in
  bra_response ra = {| br_client_mcl := ba_req_mcl a; br_server_mcl := bo_req_mcl (ba_offer a) |} /\
  permissible level_permissible (bs_server_mcl s) = true /\ permissible level_permissible (bs_client_mcl c) = true /\
  (bo_req_mcl (ba_offer a) <> 0 -> bs_server_mcl s <= bo_req_mcl (ba_offer a)) /\
  (ba_req_mcl a <> 0 -> bs_client_mcl c <= ba_req_mcl a).
Proof.
  intros Hint Ho Ha Hra Hp.
  (* constructor facts *)
  assert (Fo : bo_req_mcl (ba_offer a) = 0 \/ permissible level_permissible (bo_req_mcl (ba_offer a)) = true).
  { unfold b_offer_ctor in Ho. destruct (bo_req_mcl (ba_offer a) =? 0) eqn:E; [left; now apply Z.eqb_eq|]. right.
    destruct (permissible level_permissible (bo_req_mcl (ba_offer a))); [reflexivity | discriminate]. }
  assert (Fa : (ba_req_mcl a = 0 \/ permissible level_permissible (ba_req_mcl a) = true) /\
               (forall l, ba_level a = Some l -> permissible level_permissible l = true /\
                                                (bo_req_mcl (ba_offer a) = 0 \/ l <= bo_req_mcl (ba_offer a)))).
  { unfold b_accept_ctor in Ha.
    destruct (negb (ba_req_mcl a =? 0) && negb (permissible level_permissible (ba_req_mcl a))) eqn:E1; [discriminate|].
    destruct (negb (ba_req_mcl a =? 0) && negb (bo_acc_mcl (ba_offer a))) eqn:E2; [discriminate|].
    destruct (match ba_level a with Some l => negb (permissible level_permissible l) | None => false end) eqn:E3; [discriminate|].
    destruct (match ba_level a with Some l => negb (bo_req_mcl (ba_offer a) =? 0) && (l >? bo_req_mcl (ba_offer a)) | None => false end) eqn:E4; [discriminate|].
    split.
    - destruct (ba_req_mcl a =? 0) eqn:E0; [left; now apply Z.eqb_eq|]. right. cbn in E1. now apply negb_false_iff in E1.
    - intros l Hl. rewrite Hl in E3, E4. apply negb_false_iff in E3. split; [exact E3|].
      destruct (bo_req_mcl (ba_offer a) =? 0) eqn:E0; [left; now apply Z.eqb_eq|]. right. cbn in E4.
      rewrite Z.gtb_ltb in E4. apply Z.ltb_ge in E4. lia. }
  destruct Fa as [Fa1 Fa2].
  (* the client reads the string back *)
  assert (Hin : forall w, permissible level_permissible w = true -> int_in py_int level_permissible (VStr (dec_string w)) = Ok w).
  { intros w Hw. unfold int_in, int_of_pval. rewrite (Hint w) by (now apply permissible_In). now rewrite Hw. }
  assert (Hr : bra_response ra = {| br_client_mcl := ba_req_mcl a; br_server_mcl := bo_req_mcl (ba_offer a) |}).
  { unfold b_accept_string, b_response_parse in Hp.
    assert (Hs : bo_req_mcl (ba_offer a) <> 0 -> permissible level_permissible (bo_req_mcl (ba_offer a)) = true) by tauto.
    assert (Hc : ba_req_mcl a <> 0 -> permissible level_permissible (ba_req_mcl a) = true) by tauto.
    destruct (Z.eqb_spec (bo_req_mcl (ba_offer a)) 0) as [Es|Es]; destruct (Z.eqb_spec (ba_req_mcl a) 0) as [Ec|Ec];
      cbn [negb app params_of_tokens fold_left params_add pkey_eqb fst snd tok_val b_response_parse_loop single bind] in Hp;
      rewrite ?(Hin _ (Hs Es)) in Hp; cbn [bind] in Hp; rewrite ?(Hin _ (Hc Ec)) in Hp; cbn [bind] in Hp;
      inversion Hp; congruence. }
  assert (Fr : forall l, bra_level ra = Some l -> permissible level_permissible l = true /\ (ba_req_mcl a = 0 \/ l <= ba_req_mcl a)).
  { unfold b_raccept_ctor in Hra. rewrite Hr in Hra. cbn [br_client_mcl] in Hra.
    destruct (match bra_level ra with Some l => negb (permissible level_permissible l) | None => false end) eqn:E3; [discriminate|].
    destruct (match bra_level ra with Some l => negb (ba_req_mcl a =? 0) && (l >? ba_req_mcl a) | None => false end) eqn:E4; [discriminate|].
    intros l Hl. rewrite Hl in E3, E4. apply negb_false_iff in E3. split; [exact E3|].
    destruct (ba_req_mcl a =? 0) eqn:E0; [left; now apply Z.eqb_eq|]. right. cbn in E4.
    rewrite Z.gtb_ltb in E4. apply Z.ltb_ge in E4. lia. }
  cbv zeta. split; [exact Hr|]. unfold b_from_offer_accept, b_from_response_accept, b_pmce. rewrite Hr.
  cbn [bs_server_mcl bs_client_mcl br_client_mcl br_server_mcl].
  assert (Hnorm : forall v, (v = 0 \/ permissible level_permissible v = true) ->
                            permissible level_permissible (if v =? 0 then default_compress_level else v) = true).
  { intros v [->|Hv]; [apply default_level_permissible|]. destruct (v =? 0); [apply default_level_permissible | exact Hv]. }
  repeat split.
  - apply Hnorm. destruct (ba_level a) as [l|] eqn:El; [right; apply (Fa2 l eq_refl) | exact Fo].
  - apply Hnorm. destruct (bra_level ra) as [l|] eqn:El; [right; apply (Fr l eq_refl) | exact Fa1].
  - intros Hnz. destruct (ba_level a) as [l|] eqn:El.
    + destruct (Fa2 l eq_refl) as [Hp1 Hle]. pose proof (level_range l Hp1).
      replace (l =? 0) with false by (symmetry; apply Z.eqb_neq; lia). lia.
    + replace (bo_req_mcl (ba_offer a) =? 0) with false by (symmetry; now apply Z.eqb_neq). lia.
  - intros Hnz. destruct (bra_level ra) as [l|] eqn:El.
    + destruct (Fr l eq_refl) as [Hp1 Hle]. pose proof (level_range l Hp1).
      replace (l =? 0) with false by (symmetry; apply Z.eqb_neq; lia). lia.
    + replace (ba_req_mcl a =? 0) with false by (symmetry; now apply Z.eqb_neq). lia.
Qed.

(* the bzip2 fix (36836fb7): with the empty-input guard the same message, trailing empty frame included, is delivered *)
Lemma eos_strict_guarded_delivers :
  let p := pmce_init unit bool disc_bzip2 9 0 false 0 false in
  match send_msgs unit bool id_c_new id_c_compress eos_c_flush (Some p) [MWhole [1; 2]%N true (Some 1) false] with
  | Sent _ _ _ fss =>
      map (map (fun f => (f_fin f, f_rsv f, f_payload f))) fss
        = [[(false, 4%N, [1%N]); (false, 0%N, [2%N]); (false, 0%N, [255%N]); (true, 0%N, [])]] /\
      snd (recv_frames unit bool eos_d_new eos_d_feed (rstate_init unit bool (Some p))
             (map (fun f => (f_fin f, f_rsv f, f_opcode f, [f_payload f])) (List.concat fss)))
      = [Delivered [1; 2]%N true]
  | SendRaised _ _ _ _ => False
  end.
Proof. vm_compute. split; reflexivity. Qed.
