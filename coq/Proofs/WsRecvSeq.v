(* C02_sequence: the events of one read of a whole stream are what the declarative RFC 6455 judge says,
   up to and including the first violation / the Close frame (default policy failByDrop = true). *)
From Coq Require Import NArith List Bool Lia PeanoNat.
From AV Require Import Model.Masker Proofs.MaskerProofs Gen.WsConsts Model.WsRecv
                       Proofs.WsRecvHeader Proofs.WsRecvProofs Proofs.WsRecvLocal Proofs.WsRecvSplit.
Import ListNotations.
Open Scope N_scope.

(* ---------- the two readings of the header octets agree on octets ---------- *)
Definition fld_ok (b : N) : bool :=
  Bool.eqb (hb_fin b) (bit b 7) && (hb_opcode b =? b mod 16) && Bool.eqb (hb_masked b) (bit b 7) &&
  (hb_len1 b =? b mod 128) &&
  Bool.eqb (hb_rsv b =? 4) (bit b 6 && negb (bit b 5) && negb (bit b 4)) &&
  Bool.eqb (hb_rsv b =? 0) (negb (bit b 6) && negb (bit b 5) && negb (bit b 4)).
Lemma fld_sweep : forallb fld_ok (rangeN 256) = true.
Proof. vm_compute. reflexivity. Qed.
Lemma fld b : b < 256 ->
  hb_fin b = bit b 7 /\ hb_opcode b = b mod 16 /\ hb_masked b = bit b 7 /\ hb_len1 b = b mod 128 /\
  (hb_rsv b =? 4) = (bit b 6 && negb (bit b 5) && negb (bit b 4)).
Proof.
  intros H. pose proof fld_sweep as S. rewrite forallb_forall in S. specialize (S b (proj2 (rangeN_in 256 b) H)).
  unfold fld_ok in S. repeat (apply andb_true_iff in S; destruct S as [S ?]).
  repeat match goal with X : Bool.eqb _ _ = true |- _ => apply Bool.eqb_prop in X end.
  repeat match goal with X : (_ =? _) = true |- _ => apply N.eqb_eq in X end.
  auto.
Qed.

(* ---------- judged: events in the judge's vocabulary ---------- *)
Definition quietv (evs : list event) : Prop := snd (judged evs) = VMore.
Lemma judged_app a b : judged (a ++ b) =
  match snd (judged a) with VMore => (fst (judged a) ++ fst (judged b), snd (judged b)) | _ => judged a end.
Proof.
  induction a as [|e a IH]; cbn [app judged].
  - destruct (judged b); reflexivity.
  - destruct e; cbn [judged fst snd]; first [exact IH | reflexivity |
      (rewrite IH; destruct (judged a) as [l v]; cbn [fst snd]; destruct v; destruct (judged b); reflexivity)].
Qed.

Definition bytes_ok (l : list N) : Prop := Forall (fun b => b < 256) l.
#[local] Arguments FMore {D}.
#[local] Arguments FFail {D}.
#[local] Arguments FClose {D}.
#[local] Arguments FNext {D}.

Section Seq.
Variable D : Type.
Variable cd : codec D.
Variable cf : cfg.
Hypothesis FBD : failByDrop cf = true.
(* a decompressor fed no octets yields none (part of the codec stream law) *)
Hypothesis d_nil : forall d, d_data cd d [] = (d, []).
Notation rstate := (rstate D).
Notation jstate := (jstate D).

Lemma fail_fbd c code : st c <> CLOSED ->
  fail_connection cf c code = (mkC CLOSED true false (rcode c) (rreason c), [EFail code; EDrop true]).
Proof. intros H. now apply fail_connection_drop. Qed.

Lemma pv_all_fbd_open c v vs : st c <> CLOSED ->
  pv_all cf c (v :: vs) = (mkC CLOSED true false (rcode c) (rreason c), [EFail code_protocol_error; EDrop true], true).
Proof. intros H. cbn [pv_all]. unfold protocol_violation. rewrite (fail_fbd c _ H), FBD. reflexivity. Qed.

(* the header step on a buffer that starts with a complete header whose first two octets break no rule *)
Lemma model_header (s : rstate) b0 b1 r :
  data D s = b0 :: b1 :: r -> b0 < 256 -> b1 < 256 -> cur D s = None -> st (cn D s) <> CLOSED ->
  hdr_viols cf (inside D (ms D s)) b0 b1 = [] ->
  let len7 := b1 mod 128 in let masked := bit b1 7 in let mlen := if masked then 4 else 0 in
  (if len7 <=? 125 then 0 else if len7 =? 126 then 2 else 8) + mlen <= lenN r ->
  match rfc_length len7 r with
  | LNeed => False
  | LBad => exists c1, st c1 = CLOSED /\ step D cd cf s = (r_cn D s c1, [EFail code_protocol_error; EDrop true], Stop)
  | LOk n r1 =>
      let key := take mlen r1 in
      let f := mkF (b0 mod 16) (bit b0 7) (hb_rsv b0) n masked key in
      let mk := if masked && (0 <? n) && applyMask cf then Some key else None in
      let s3 := mkR D (cn D s) (ms D s) (drop mlen r1) (Some f) mk 0 (cdata D s) in
      step D cd cf s =
        (let '(s4, e4) := on_frame_begin D cd cf s3 f in
         (s4, e4, if (n =? 0) || nonempty (data D s4) then Cont else Stop))
  end.
Proof.
  intros Hd H0 H1 Hcur Hst Hv len7 masked mlen Hlen.
  destruct (fld b0 H0) as [F1 [F2 [_ [_ F5]]]]. destruct (fld b1 H1) as [_ [_ [G3 [G4 _]]]].
  assert (L7 : len7 < 128) by (apply N.mod_lt; discriminate).
  assert (Hdrop : drop 2 (data D s) = r) by (rewrite Hd; reflexivity).
  pose proof (length_rules_rfc len7 (data D s) L7) as LR. rewrite Hdrop in LR. specialize (LR ltac:(lia)).
  unfold step. rewrite Hcur. unfold step_header. rewrite Hd.
  replace (pd_have2 (lenN (b0 :: b1 :: r))) with true
    by (symmetry; apply N.leb_le; unfold lenN; cbn [length]; lia).
  cbn [negb nth]. rewrite Hv. cbn [pv_all]. rewrite G3, G4. fold len7 masked. fold mlen.
  destruct (header_len_some len7 mlen L7) as [hl [Ehl Hhl]]. rewrite Ehl.
  assert (HlenN : lenN (b0 :: b1 :: r) = 2 + lenN r) by (unfold lenN; cbn [length]; lia).
  unfold pd_have_header. replace (hl <=? lenN (b0 :: b1 :: r)) with true.
  2:{ symmetry. apply N.leb_le. rewrite HlenN, Hhl.
      destruct (N.ltb_spec len7 126), (N.leb_spec len7 125); try lia; destruct (N.eqb_spec len7 126); lia. }
  cbn [negb]. rewrite <- Hd.
  destruct (rfc_length len7 r) as [| |n r1] eqn:ER.
  - exact LR.
  - destruct (ext_len len7 (data D s)) as [[plen lv] i]. cbn [fst snd] in LR.
    destruct lv as [|v vs]; [congruence|]. cbn [cn r_cn].
    rewrite (pv_all_fbd_open (cn D s) v vs Hst). eexists; split; [|reflexivity]. reflexivity.
  - rewrite LR. cbn [pv_all cn r_cn ms cdata app].
    (* r1 and the index *)
    assert (Hr1 : r1 = drop ((if len7 <=? 125 then 2 else if len7 =? 126 then 4 else 10) - 2) r).
    { revert ER. unfold rfc_length. destruct (len7 <=? 125); [intros E; inversion E; reflexivity|].
      destruct (len7 =? 126).
      - destruct (lenN r <? 2); [discriminate|]. destruct (be_val 0 (take 2 r) <? 126); [discriminate|]. intros E; inversion E; reflexivity.
      - destruct (lenN r <? 8); [discriminate|]. destruct ((be_val 0 (take 8 r) <? 65536) || (2 ^ 63 <=? be_val 0 (take 8 r))); [discriminate|]. intros E; inversion E; reflexivity. }
    set (i := if len7 <=? 125 then 2 else if len7 =? 126 then 4 else 10) in *.
    assert (Hi2 : 2 <= i) by (unfold i; destruct (len7 <=? 125); [lia|destruct (len7 =? 126); lia]).
    assert (Hdi : drop i (data D s) = r1).
    { rewrite Hr1, Hd. unfold drop. replace (N.to_nat i) with (2 + N.to_nat (i - 2))%nat by lia. reflexivity. }
    assert (Hdi' : drop (i + mlen) (data D s) = drop mlen r1).
    { rewrite <- Hdi. unfold drop. replace (N.to_nat (i + mlen)) with (N.to_nat i + N.to_nat mlen)%nat by lia. apply skipn_plus. }
    rewrite Hdi, Hdi'.
    assert (Hmask : (if masked then take 4 r1 else []) = take mlen r1).
    { unfold mlen. destruct masked; reflexivity. }
    rewrite Hmask. unfold pd_len_pos, pd_len_zero. rewrite F1, F2.
    destruct s; reflexivity.
Qed.

(* ---------- what the header rules give ---------- *)
Lemma rules_of_ok ins b0 b1 : rfc_header_bad cf ins b0 b1 = false ->
  forall r, In r header_rules -> rfc_rule cf ins b0 b1 r = false.
Proof.
  unfold rfc_header_bad, rfc_header_verdict, rfc_rule. intros H r Hin.
  destruct (filter _ header_rules) eqn:E; [|discriminate].
  destruct (rfc_rule_f cf ins (bit b0 7) (bit b0 6) (bit b0 5) (bit b0 4) (b0 mod 16) (bit b1 7) (b1 mod 128) r) eqn:R; [|reflexivity].
  assert (In r []) as []. rewrite <- E. apply filter_In. split; assumption.
Qed.

Lemma ok_no_viols ins b0 b1 : b0 < 256 -> b1 < 256 -> rfc_header_bad cf ins b0 b1 = false -> hdr_viols cf ins b0 b1 = [].
Proof.
  intros H0 H1 H. destruct (header_table cf ins b0 b1 H0 H1) as [[_ T] _]. apply T.
  unfold rfc_header_bad in H. destruct (rfc_header_verdict cf ins b0 b1); [reflexivity|discriminate].
Qed.
Lemma bad_viols ins b0 b1 : b0 < 256 -> b1 < 256 -> rfc_header_bad cf ins b0 b1 = true -> hdr_viols cf ins b0 b1 <> [].
Proof.
  intros H0 H1 H E. destruct (header_table cf ins b0 b1 H0 H1) as [[T _] _]. specialize (T E).
  unfold rfc_header_bad in H. rewrite T in H. discriminate.
Qed.

(* ---------- close frames under failByDrop ---------- *)
Lemma close_judged c code reason : st c <> CLOSED ->
  judged (snd (on_close_frame cf c code reason)) =
  ([], match code with
       | Some k => if negb (rfc_close_code_ok k) then VFail VProtocol
                   else match reason with
                        | Some r => if utf8_complete r then VClose code reason else VFail VInvalidPayload
                        | None => VClose code None
                        end
       | None => match reason with None => VClose None None | Some r => if utf8_complete r then VClose None reason else VFail VInvalidPayload end
       end).
Proof.
  intros Hs. unfold on_close_frame, protocol_violation, invalid_payload, fail_connection, drop_connection, send_close_frame, utf8_complete.
  rewrite FBD. destruct c as [s f cl rc rr]. cbn [st] in Hs.
  destruct code as [k|].
  - rewrite <- close_code_table. destruct (close_code_invalid k).
    + destruct s; try congruence; reflexivity.
    + destruct reason as [r|]; [destruct (u_validate 0 r) as [[v e] u]; destruct v, e|];
      destruct s, (isServer cf), (echoClose cf); try congruence; reflexivity.
  - destruct reason as [r|]; [destruct (u_validate 0 r) as [[v e] u]; destruct v, e|];
    destruct s, (isServer cf), (echoClose cf); try congruence; reflexivity.
Qed.

(* ---------- the simulation relation between the model between frames and the judge's fragment context ---------- *)
Definition Sim (s : rstate) (js : jstate) : Prop :=
  cur D s = None /\ st (cn D s) <> CLOSED /\ failed (cn D s) = false /\ W2 D (ms D s) /\
  dec D (ms D s) = j_dec D js /\ inside D (ms D s) = j_open D js /\
  (j_open D js = true ->
     zon D (ms D s) = j_comp D js /\ uon D (ms D s) = j_text D js /\ mbin D (ms D s) = j_bin D js /\
     mdata D (ms D s) = j_acc D js /\ mtotal D (ms D s) = j_total D js /\
     (j_text D js = true -> ust D (ms D s) = j_u D js)).

Lemma Sim_init p d0 : p <> CLOSED -> Sim (init_state D p d0) (j_init D d0).
Proof.
  intros H. unfold Sim, init_state, init_conn, init_mstate, j_init. cbn.
  split; [reflexivity|]. split; [exact H|]. split; [reflexivity|]. split; [intros _; repeat split|].
  split; [reflexivity|]. split; [reflexivity|]. discriminate.
Qed.

Lemma Sim_same (s s2 : rstate) js : cn D s2 = cn D s -> ms D s2 = ms D s -> cur D s2 = None -> Sim s js -> Sim s2 js.
Proof. intros E1 E2 E3 H. unfold Sim in *. rewrite E1, E2, E3. destruct H as [_ H]. split; [reflexivity|exact H]. Qed.

Lemma Sim_Wf s js : Sim s js -> Wf D s.
Proof. intros [Hc [_ [_ [W _]]]]. split; [exact W|]. unfold W3. now rewrite Hc. Qed.

Notation Runs := (Runs D cd cf).

(* two steps that finish a frame *)
Lemma two_steps (s s1 s2 : rstate) e1 e2 :
  step D cd cf s = (s1, e1, Cont) -> st (cn D s1) <> CLOSED ->
  step D cd cf s1 = (s2, e2, if nonempty (data D s2) then Cont else Stop) -> st (cn D s2) <> CLOSED ->
  (forall s3 e3, Runs s2 s3 e3 -> data D s2 <> [] -> Runs s s3 ((e1 ++ e2) ++ e3)) /\
  (data D s2 = [] -> Runs s s2 (e1 ++ e2)).
Proof.
  intros H1 Ho1 H2 Ho2. split.
  - intros s3 e3 R Hne. rewrite <- app_assoc. eapply runs_cont; [exact H1|exact Ho1|].
    eapply runs_cont; [|exact Ho2|exact R]. rewrite H2. destruct (data D s2); [congruence|reflexivity].
  - intros E. eapply runs_cont; [exact H1|exact Ho1|]. eapply runs_stop; [exact H2|]. rewrite E. left; discriminate.
Qed.

(* a complete run exists and starts with the events of the first two steps *)
Lemma runs_after_two (s s1 s2 : rstate) e1 e2 c2 : Wf D s ->
  step D cd cf s = (s1, e1, Cont) -> st (cn D s1) <> CLOSED -> step D cd cf s1 = (s2, e2, c2) ->
  exists s' e', Runs s s' ((e1 ++ e2) ++ e').
Proof.
  intros HW H1 Ho1 H2.
  destruct (run_terminates D cd cf FBD (S (mu D s)) s HW ltac:(lia)) as [s' [e R]].
  assert (R' : Runs s s' e) by (eexists; exact R).
  pose proof (runs_inv D cd cf _ _ _ R') as I. rewrite H1 in I.
  destruct I as [[_ [_ [ea [Ra ->]]]]|[[Hc|Hc] _]]; [|congruence|congruence].
  pose proof (runs_inv D cd cf _ _ _ Ra) as I2. rewrite H2 in I2.
  destruct I2 as [[_ [_ [eb [Rb ->]]]]|[_ [-> ->]]].
  - exists s', eb. rewrite <- app_assoc. exact R'.
  - exists s2, []. rewrite app_nil_r. exact R'.
Qed.
Lemma runs_after_one (s s1 : rstate) e1 c1 : Wf D s -> step D cd cf s = (s1, e1, c1) -> exists s' e', Runs s s' (e1 ++ e').
Proof.
  intros HW H1.
  destruct (run_terminates D cd cf FBD (S (mu D s)) s HW ltac:(lia)) as [s' [e R]].
  assert (R' : Runs s s' e) by (eexists; exact R).
  pose proof (runs_inv D cd cf _ _ _ R') as I. rewrite H1 in I.
  destruct I as [[_ [_ [ea [Ra ->]]]]|[_ [-> ->]]].
  - exists s', ea. exact R'.
  - exists s1, []. rewrite app_nil_r. exact R'.
Qed.

Lemma judged_terminal a b v : judged a = ([], v) -> v <> VMore -> judged (a ++ b) = ([], v).
Proof. intros H Hv. rewrite judged_app, H. cbn [snd]. destruct v; congruence. Qed.

(* the receive-side unmasking is the judge's *)
Lemma raw_eq masked key n chunk : (n = 0 -> chunk = []) ->
  fst (mask_process (if masked && (0 <? n) && applyMask cf then Some key else None) 0 chunk) = unmask cf masked key chunk.
Proof.
  intros H. unfold unmask, mask_process. destruct masked; cbn [andb]; [|reflexivity].
  destruct (N.ltb_spec 0 n); cbn [andb].
  - destruct (applyMask cf); reflexivity.
  - rewrite H by lia. destruct (applyMask cf); reflexivity.
Qed.
Lemma mask_ptr k chunk : snd (mask_process k 0 chunk) = lenN chunk.
Proof. unfold mask_process. destruct k; cbn [snd]; lia. Qed.

Definition frame_ok (s : rstate) (js : jstate) (bs : list N) : Prop :=
  match judge_frame D cd cf js bs with
  | FNext evj js' rest =>
      exists s2 e, (forall s3 e3, Runs s2 s3 e3 -> rest <> [] -> Runs s s3 (e ++ e3)) /\ (rest = [] -> Runs s s2 e) /\
                   Sim s2 js' /\ data D s2 = rest /\ judged e = (evj, VMore)
  | FMore => exists s' e, Runs s s' e /\ judged e = ([], VMore)
  | FFail c => exists s' e, Runs s s' e /\ judged e = ([], VFail c)
  | FClose c r => exists s' e, Runs s s' e /\ judged e = ([], VClose c r)
  end.

(* ---- control frames ---- *)
Lemma frame_ctl (s : rstate) js b0 b1 r n r1 :
  Sim s js -> data D s = b0 :: b1 :: r -> b0 < 256 -> b1 < 256 ->
  rfc_header_bad cf (j_open D js) b0 b1 = false ->
  let op := b0 mod 16 in let masked := bit b1 7 in let len7 := b1 mod 128 in let mlen := if masked then 4 else 0 in
  (if len7 <=? 125 then 0 else if len7 =? 126 then 2 else 8) + mlen <= lenN r ->
  rfc_length len7 r = LOk n r1 -> 8 <=? op = true ->
  let key := take mlen r1 in let r2 := drop mlen r1 in
  let complete := n <=? lenN r2 in
  let raw := unmask cf masked key (if complete then take n r2 else r2) in
  let rest := drop n r2 in
  match (if negb complete then FMore
         else if op =? 9 then FNext [JPing raw] js rest
         else if op =? 10 then FNext [JPong raw] js rest
         else match raw with
              | [] => FClose None None
              | c1 :: c2 :: reason =>
                  let code := c1 * 256 + c2 in
                  if negb (rfc_close_code_ok code) then FFail VProtocol
                  else match reason with
                       | [] => FClose (Some code) None
                       | _ => if utf8_complete reason then FClose (Some code) (Some reason) else FFail VInvalidPayload
                       end
              | _ => FFail VProtocol
              end) : jframe D return Prop with
  | FNext evj js' rest' =>
      exists s2 e, (forall s3 e3, Runs s2 s3 e3 -> rest' <> [] -> Runs s s3 (e ++ e3)) /\ (rest' = [] -> Runs s s2 e) /\
                   Sim s2 js' /\ data D s2 = rest' /\ judged e = (evj, VMore)
  | FMore => exists s' e, Runs s s' e /\ judged e = ([], VMore)
  | FFail c => exists s' e, Runs s s' e /\ judged e = ([], VFail c)
  | FClose c rr => exists s' e, Runs s s' e /\ judged e = ([], VClose c rr)
  end.
Proof.
  intros HS Hd H0 H1 Hok op masked len7 mlen Hlen ER Hctl key r2 complete raw rest.
  pose proof HS as [Hcur [Hst [Hnf [HW2 [Hdec [Hins Hfr]]]]]].
  pose proof (Sim_Wf _ _ HS) as HWf.
  (* rules *)
  pose proof (rules_of_ok _ _ _ Hok) as Ru.
  assert (Rfin : bit b0 7 = true).
  { specialize (Ru HCtlFragmented ltac:(cbn; auto 20)). unfold rfc_rule, rfc_rule_f in Ru. fold op in Ru. rewrite Hctl in Ru.
    destruct (bit b0 7); [reflexivity|discriminate]. }
  assert (Rlen : len7 <= 125).
  { specialize (Ru HCtlLen ltac:(cbn; auto 20)). unfold rfc_rule, rfc_rule_f in Ru. fold op len7 in Ru. rewrite Hctl in Ru.
    cbn [andb] in Ru. apply N.ltb_ge in Ru. exact Ru. }
  assert (Rop : op = 8 \/ op = 9 \/ op = 10).
  { specialize (Ru HCtlOpcode ltac:(cbn; auto 20)). unfold rfc_rule, rfc_rule_f, inr in Ru. fold op in Ru.
    apply N.leb_le in Hctl. assert (op < 16) by (apply N.mod_lt; discriminate).
    apply andb_false_iff in Ru. destruct Ru as [Ru|Ru]; [apply N.leb_gt in Ru|apply N.leb_gt in Ru]; lia. }
  assert (Rc1 : (op =? 8) && (len7 =? 1) = false).
  { specialize (Ru HCloseLen1 ltac:(cbn; auto 20)). exact Ru. }
  assert (Hn : n = len7 /\ r1 = r).
  { revert ER. unfold rfc_length. replace (len7 <=? 125) with true by (symmetry; now apply N.leb_le). intros E; inversion E; auto. }
  destruct Hn as [-> ->].
  (* the header step *)
  assert (Hv : hdr_viols cf (inside D (ms D s)) b0 b1 = []) by (rewrite Hins; apply ok_no_viols; assumption).
  pose proof (model_header s b0 b1 r Hd H0 H1 Hcur Hst Hv) as MH.
  cbv zeta in MH. fold len7 masked mlen in MH. specialize (MH Hlen). rewrite ER in MH.
  fold key r2 op in MH.
  set (f := mkF op (bit b0 7) (hb_rsv b0) len7 masked key) in *.
  set (mk := if masked && (0 <? len7) && applyMask cf then Some key else None) in *.
  assert (Hfc : fb_is_ctl (f_op f) = true) by (unfold fb_is_ctl; cbn [f_op f]; apply N.ltb_lt; apply N.leb_le in Hctl; lia).
  unfold on_frame_begin in MH. rewrite Hfc in MH. cbn [r_cdata cn ms data cur mkey mptr] in MH.
  set (s4 := mkR D (cn D s) (ms D s) r2 (Some f) mk 0 []) in *.
  assert (HW4 : Wf D s4).
  { split; [exact HW2|]. unfold W3. cbn [cur s4 mptr cdata]. split; [lia|]. intros _. cbn [f_len f]. split; [exact Rlen|reflexivity]. }
  (* the payload step *)
  assert (SP : step D cd cf s4 =
               if len7 <=? lenN r2 then sp D cd cf s4 f (take len7 r2) (drop len7 r2) else sp D cd cf s4 f r2 []).
  { unfold step. cbn [cur s4]. rewrite step_payload_sp. cbv zeta. cbn [data mptr s4 f_len f]. now rewrite N.sub_0_r. }
  unfold complete in *. destruct (N.leb_spec len7 (lenN r2)) as [Hc|Hc]; cbn [negb].
  2:{ (* incomplete control frame: no event *)
      destruct r2 as [|x xr] eqn:Er2.
      - exists s4, []. split; [|reflexivity]. eapply runs_stop; [exact MH|].
        replace (len7 =? 0) with false by (symmetry; apply N.eqb_neq; unfold lenN in Hc; cbn in Hc; lia). left; discriminate.
      - rewrite orb_true_r in MH.
        assert (P : sp D cd cf s4 f (x :: xr) [] = (r_data D (mkR D (cn D s) (ms D s) (x :: xr) (Some f) mk (lenN (x :: xr)) ([] ++ fst (mask_process mk 0 (x :: xr)))) [], [], Stop)).
        { unfold sp, pay_apply. cbn [mkey mptr s4 cn ms data cur cdata].
          pose proof (mask_ptr mk (x :: xr)) as Mp. destruct (mask_process mk 0 (x :: xr)) as [pl p1]. cbn [snd fst] in *. subst p1.
          unfold on_frame_data. change (fd_is_ctl (f_op f)) with (fb_is_ctl (f_op f)). rewrite Hfc. cbn [mptr r_cdata cdata f_len f].
          replace (lenN (x :: xr) =? len7) with false by (symmetry; apply N.eqb_neq; lia). reflexivity. }
        rewrite P in SP.
        eexists; eexists. split; [eapply runs_cont; [exact MH|exact Hst|]; eapply runs_stop; [exact SP|left; discriminate]|]. reflexivity. }
  (* complete control frame *)
  assert (Hne : (len7 =? 0) || nonempty r2 = true).
  { destruct (N.eqb_spec len7 0); [reflexivity|]. destruct r2; [unfold lenN in Hc; cbn in Hc; lia|reflexivity]. }
  rewrite Hne in MH.
  assert (Hraw : fst (mask_process mk 0 (take len7 r2)) = raw).
  { unfold raw, mk. replace (len7 <=? lenN r2) with true by (symmetry; now apply N.leb_le). apply raw_eq.
    intros ->. reflexivity. }
  assert (Hlraw : lenN raw = len7).
  { rewrite <- Hraw. rewrite mask_process_len. now apply lenN_take. }
  set (s5 := mkR D (cn D s) (ms D s) r2 (Some f) mk len7 raw).
  assert (PA : pay_apply D cd cf s4 f (take len7 r2) =
               let '(sx, ex, raised) := process_control_frame D cf s5 f in
               if raised then (sx, ex, Raised) else (r_cur D sx None, ex, Cont)).
  { unfold pay_apply. cbn [mkey mptr s4 cn ms data cur cdata].
    pose proof (mask_ptr mk (take len7 r2)) as Mp. rewrite (lenN_take _ _ Hc) in Mp.
    destruct (mask_process mk 0 (take len7 r2)) as [pl p1]. cbn [snd fst] in *. subst p1 pl.
    unfold on_frame_data. change (fd_is_ctl (f_op f)) with (fb_is_ctl (f_op f)). rewrite Hfc. cbn [mptr r_cdata cdata f_len f app].
    rewrite N.eqb_refl. unfold on_frame_end. change (fe_is_ctl (f_op f)) with (fb_is_ctl (f_op f)). rewrite Hfc.
    unfold r_cdata at 1. cbn [cn ms data cur mkey mptr cdata].
    change (mkR D (cn D s) (ms D s) r2 (Some f) mk len7 raw) with s5.
    destruct (process_control_frame D cf s5 f) as [[sx ex] raised]. destruct raised; reflexivity. }
  replace (len7 <=? lenN r2) with true in SP by (symmetry; now apply N.leb_le).
  unfold sp in SP. rewrite PA in SP.
  destruct Rop as [Ro|[Ro|Ro]].
  - (* close *)
    replace (op =? 9) with false by (rewrite Ro; reflexivity). replace (op =? 10) with false by (rewrite Ro; reflexivity).
    unfold process_control_frame in SP. cbn [f_op f] in SP. rewrite Ro in SP. change (pc_is_close 8) with true in SP.
    cbv iota in SP. cbn [cdata s5 cn r_cdata r_cn] in SP.
    pose proof (close_payload_split raw) as [CS1 CS2]. cbv zeta in CS1, CS2. rewrite CS1, CS2 in SP.
    pose proof (close_judged (cn D s)) as CJ.
    assert (Hr1 : forall c1, raw = [c1] -> False).
    { intros c1 E. rewrite E in Hlraw. unfold lenN in Hlraw. cbn in Hlraw. rewrite Ro, <- Hlraw in Rc1. discriminate. }
    destruct raw as [|c1 [|c2 reason]] eqn:Eraw.
    + specialize (CJ None None Hst). destruct (on_close_frame cf (cn D s) None None) as [cx ex]. cbn [snd] in CJ.
      destruct (runs_after_two s s4 _ [] ex _ HWf MH Hst SP) as [s' [e' R]].
      exists s', (([] ++ ex) ++ e'). split; [exact R|]. apply judged_terminal; [exact CJ|discriminate].
    + exfalso. eapply Hr1; reflexivity.
    + specialize (CJ (Some (c1 * 256 + c2)) (match reason with [] => None | _ => Some reason end) Hst).
      destruct (on_close_frame cf (cn D s) (Some (c1 * 256 + c2)) (match reason with [] => None | _ => Some reason end)) as [cx ex].
      cbn [snd] in CJ.
      destruct (runs_after_two s s4 _ [] ex _ HWf MH Hst SP) as [s' [e' R]].
      destruct (negb (rfc_close_code_ok (c1 * 256 + c2))).
      * exists s', (([] ++ ex) ++ e'). split; [exact R|]. apply judged_terminal; [exact CJ|discriminate].
      * destruct reason as [|q qs].
        -- exists s', (([] ++ ex) ++ e'). split; [exact R|]. apply judged_terminal; [exact CJ|discriminate].
        -- destruct (utf8_complete (q :: qs));
           (exists s', (([] ++ ex) ++ e'); split; [exact R|]; apply judged_terminal; [exact CJ|discriminate]).
  - (* ping *)
    replace (op =? 9) with true by (rewrite Ro; reflexivity).
    unfold process_control_frame in SP. cbn [f_op f] in SP. rewrite Ro in SP. change (pc_is_close 9) with false in SP.
    change (pc_is_ping 9) with true in SP. cbv iota in SP. cbn [cdata s5 cn r_cdata] in SP.
    unfold sp_too_long in SP. rewrite Hlraw in SP.
    replace (125 <? len7) with false in SP by (symmetry; apply N.ltb_ge; exact Rlen). rewrite andb_false_r in SP.
    destruct (st (cn D s)) eqn:Es; [| |congruence].
    + cbn [cont_of r_cur r_cdata r_data] in SP.
      set (s2 := r_data D (r_cur D (r_cdata D s5 []) None) rest).
      destruct (two_steps s s4 s2 [] [EPing raw; ESendPong raw] MH ltac:(cbn; congruence) SP ltac:(cbn; congruence)) as [T1 T2].
      exists s2, ([] ++ [EPing raw; ESendPong raw]). split; [exact T1|]. split; [exact T2|]. split; [|split; reflexivity].
      apply (Sim_same s); [reflexivity|reflexivity|reflexivity|exact HS].
    + cbn [cont_of r_cur r_cdata r_data] in SP.
      set (s2 := r_data D (r_cur D (r_cdata D s5 []) None) rest).
      destruct (two_steps s s4 s2 [] [EPing raw] MH ltac:(cbn; congruence) SP ltac:(cbn; congruence)) as [T1 T2].
      exists s2, ([] ++ [EPing raw]). split; [exact T1|]. split; [exact T2|]. split; [|split; reflexivity].
      apply (Sim_same s); [reflexivity|reflexivity|reflexivity|exact HS].
  - (* pong *)
    replace (op =? 9) with false by (rewrite Ro; reflexivity). replace (op =? 10) with true by (rewrite Ro; reflexivity).
    unfold process_control_frame in SP. cbn [f_op f] in SP. rewrite Ro in SP. change (pc_is_close 10) with false in SP.
    change (pc_is_ping 10) with false in SP. change (pc_is_pong 10) with true in SP. cbv iota in SP.
    cbn [cdata s5 cont_of r_cur r_cdata r_data] in SP.
    set (s2 := r_data D (r_cur D (r_cdata D s5 []) None) rest).
    destruct (two_steps s s4 s2 [] [EPong raw] MH ltac:(cbn; congruence) SP ltac:(cbn; congruence)) as [T1 T2].
    exists s2, ([] ++ [EPong raw]). split; [exact T1|]. split; [exact T2|]. split; [|split; reflexivity].
    apply (Sim_same s); [reflexivity|reflexivity|reflexivity|exact HS].
Qed.

(* closing a frame's two steps *)
Lemma finish_next (s s4 S2 : rstate) E2 js' evj rest :
  step D cd cf s = (s4, [], Cont) -> st (cn D s4) <> CLOSED ->
  step D cd cf s4 = (S2, E2, if nonempty rest then Cont else Stop) -> data D S2 = rest -> st (cn D S2) <> CLOSED ->
  Sim S2 js' -> judged E2 = (evj, VMore) ->
  exists s2 e, (forall s3 e3, Runs s2 s3 e3 -> rest <> [] -> Runs s s3 (e ++ e3)) /\ (rest = [] -> Runs s s2 e) /\
               Sim s2 js' /\ data D s2 = rest /\ judged e = (evj, VMore).
Proof.
  intros H1 Ho1 H2 Hd Ho2 HS HJ. subst rest.
  destruct (two_steps s s4 S2 [] E2 H1 Ho1 H2 Ho2) as [T1 T2].
  exists S2, ([] ++ E2). split; [exact T1|]. split; [exact T2|]. split; [exact HS|]. split; [reflexivity|exact HJ].
Qed.
Lemma finish_stop (s s4 S2 : rstate) E2 c2 v :
  step D cd cf s = (s4, [], Cont) -> st (cn D s4) <> CLOSED ->
  step D cd cf s4 = (S2, E2, c2) -> (c2 <> Cont \/ st (cn D S2) = CLOSED) -> judged E2 = ([], v) ->
  exists s' e, Runs s s' e /\ judged e = ([], v).
Proof.
  intros H1 Ho1 H2 Hc HJ. exists S2, ([] ++ E2). split; [|exact HJ].
  eapply runs_cont; [exact H1|exact Ho1|]. eapply runs_stop; [exact H2|exact Hc].
Qed.

(* ---- data frames: the payload part, from the state right after onFrameBegin ---- *)
Lemma data_tail (s : rstate) stc cl rc rr (comp text isbin : bool) (u0 uj : N) (uv0 ue0 : bool) (acc0 : list N) (total : N) (d0 : D)
      (r2 : list N) op fin rsvv n masked key (cdt : list N) :
  let c := mkC stc false cl rc rr in
  let m2 := mkM D true comp text u0 uv0 ue0 isbin acc0 [] total d0 in
  let f := mkF op fin rsvv n masked key in
  let mk := if masked && (0 <? n) && applyMask cf then Some key else None in
  let s4 := mkR D c m2 r2 (Some f) mk 0 cdt in
  stc <> CLOSED -> Wf D s -> op < 8 ->
  step D cd cf s = (s4, [], if (n =? 0) || nonempty r2 then Cont else Stop) ->
  (text = true -> uj = u0) -> (text = true -> (u0 =? 1) = false) ->
  let complete := n <=? lenN r2 in
  let raw := unmask cf masked key (if complete then take n r2 else r2) in
  let rest := drop n r2 in
  match (let '(d1, app) := if comp then d_data cd d0 raw else (d0, raw) in
         let '(uv, _, u1) := u_validate uj app in
         if text && negb uv then FFail VInvalidPayload
         else if negb complete then FMore
         else
           let acc := acc0 ++ app in
           if fin then
             if text && negb (u1 =? 0) then FFail VInvalidPayload
             else FNext [JMsg acc isbin]
                        (mkJ D false false false false [] 0 0 (if comp then d_end cd d1 else d1)) rest
           else FNext [] (mkJ D true text comp isbin acc (if text then u1 else 0) total d1) rest) : jframe D return Prop with
  | FNext evj js' rest' =>
      exists s2 e, (forall s3 e3, Runs s2 s3 e3 -> rest' <> [] -> Runs s s3 (e ++ e3)) /\ (rest' = [] -> Runs s s2 e) /\
                   Sim s2 js' /\ data D s2 = rest' /\ judged e = (evj, VMore)
  | FMore => exists s' e, Runs s s' e /\ judged e = ([], VMore)
  | FFail c => exists s' e, Runs s s' e /\ judged e = ([], VFail c)
  | FClose c rr => exists s' e, Runs s s' e /\ judged e = ([], VClose c rr)
  end.
Proof.
  intros c m2 f mk s4 Hst HWf Hop MH Hu Hnr complete raw rest.
  assert (Hfc : fd_is_ctl (f_op f) = false) by (unfold fd_is_ctl; cbn [f_op f]; apply N.ltb_ge; lia).
  assert (SP : step D cd cf s4 =
               if n <=? lenN r2 then sp D cd cf s4 f (take n r2) (drop n r2) else sp D cd cf s4 f r2 []).
  { unfold step. cbn [cur s4]. rewrite step_payload_sp. cbv zeta. cbn [data mptr s4 f_len f]. now rewrite N.sub_0_r. }
  (* one chunk through the masker and onFrameData *)
  assert (PA : forall chunk, (n = 0 -> chunk = []) ->
     pay_apply D cd cf s4 f chunk =
       let p := unmask cf masked key chunk in
       let s1 := mkR D c m2 r2 (Some f) mk (lenN chunk) cdt in
       let '(s2, e2, stop2) := on_frame_data D cd cf s1 f p in
       if stop2 then (s2, e2, Stop) else
       if mptr D s2 =? n then let '(s3, e3, c3) := on_frame_end D cd cf s2 f in (s3, e2 ++ e3, c3) else (s2, e2, Cont)).
  { intros chunk Hz. unfold pay_apply. cbn [mkey mptr s4 cn ms data cur cdata].
    pose proof (raw_eq masked key n chunk Hz) as Rq. fold mk in Rq. pose proof (mask_ptr mk chunk) as Mp.
    destruct (mask_process mk 0 chunk) as [pl p1]. cbn [fst snd] in *. subst pl p1. reflexivity. }
  assert (IP : invalid_payload cf c = (mkC CLOSED true false rc rr, [EFail code_invalid_payload; EDrop true], true)).
  { unfold invalid_payload. rewrite (fail_fbd c code_invalid_payload Hst), FBD. reflexivity. }
  unfold complete in *. destruct (N.leb_spec n (lenN r2)) as [Hc|Hc]; cbn [negb].
  - (* the whole payload is buffered *)
    assert (Hne : (n =? 0) || nonempty r2 = true).
    { destruct (N.eqb_spec n 0); [reflexivity|]. destruct r2; [unfold lenN in Hc; cbn in Hc; lia|reflexivity]. }
    rewrite Hne in MH.
    unfold sp in SP. rewrite PA in SP by (intros ->; reflexivity). cbv zeta in SP. rewrite (lenN_take _ _ Hc) in SP.
    fold raw in SP.
    unfold on_frame_data, on_message_frame_data, on_frame_end in SP.
    change (fe_is_ctl (f_op f)) with (fd_is_ctl (f_op f)) in SP. rewrite Hfc in SP.
    subst c m2 f. cbn [ms cn zon dec uon ust m_dec] in SP.
    destruct comp.
    + destruct (d_data cd d0 raw) as [d1 pl]. destruct text.
      * rewrite (Hu eq_refl). destruct (u_validate u0 pl) as [[uv ue] u1] eqn:EV.
        assert (Eue : uv = true -> ue = (u1 =? 0) /\ (u1 =? 1) = false).
        { unfold u_validate in EV. destruct (u_loop u0 pl) as [v' s'] eqn:EL. inversion EV; subst. intros ->.
          split; [reflexivity|exact (u_loop_true_not_reject _ _ _ EL)]. }
        destruct uv; cbn [negb andb].
        -- destruct (Eue eq_refl) as [Eue1 Hu1]. rewrite Eue1 in SP. destruct fin.
           ++ cbn in SP. rewrite N.eqb_refl in SP. cbn in SP. destruct (u1 =? 0) eqn:E0; cbn in SP |- *.
              ** eapply finish_next; [exact MH|cbn; exact Hst|exact SP|reflexivity|cbn; exact Hst| |reflexivity].
                 unfold Sim, W2; cbn. repeat split; auto; try discriminate; try (now rewrite E0).
              ** rewrite IP in SP. cbn in SP.
                 eapply finish_stop; [exact MH|cbn; exact Hst|exact SP|left; discriminate|reflexivity].
           ++ cbn in SP. rewrite N.eqb_refl in SP. cbn in SP |- *.
              eapply finish_next; [exact MH|cbn; exact Hst|exact SP|reflexivity|cbn; exact Hst| |reflexivity].
              unfold Sim, W2; cbn. repeat split; auto; try discriminate.
        -- cbn in SP. rewrite IP in SP. cbn in SP.
           eapply finish_stop; [exact MH|cbn; exact Hst|exact SP|left; discriminate|reflexivity].
      * destruct (u_validate uj pl) as [[uv ue] u1]. cbn [negb andb]. destruct fin.
        -- cbn in SP. rewrite N.eqb_refl in SP. cbn in SP |- *.
           eapply finish_next; [exact MH|cbn; exact Hst|exact SP|reflexivity|cbn; exact Hst| |reflexivity].
           unfold Sim, W2; cbn. repeat split; auto; try discriminate.
        -- cbn in SP. rewrite N.eqb_refl in SP. cbn in SP |- *.
           eapply finish_next; [exact MH|cbn; exact Hst|exact SP|reflexivity|cbn; exact Hst| |reflexivity].
           unfold Sim, W2; cbn. repeat split; auto; try discriminate.
    + destruct text.
      * rewrite (Hu eq_refl). destruct (u_validate u0 raw) as [[uv ue] u1] eqn:EV.
        assert (Eue : uv = true -> ue = (u1 =? 0) /\ (u1 =? 1) = false).
        { unfold u_validate in EV. destruct (u_loop u0 raw) as [v' s'] eqn:EL. inversion EV; subst. intros ->.
          split; [reflexivity|exact (u_loop_true_not_reject _ _ _ EL)]. }
        destruct uv; cbn [negb andb].
        -- destruct (Eue eq_refl) as [Eue1 Hu1]. rewrite Eue1 in SP. destruct fin.
           ++ cbn in SP. rewrite N.eqb_refl in SP. cbn in SP. destruct (u1 =? 0) eqn:E0; cbn in SP |- *.
              ** eapply finish_next; [exact MH|cbn; exact Hst|exact SP|reflexivity|cbn; exact Hst| |reflexivity].
                 unfold Sim, W2; cbn. repeat split; auto; try discriminate; try (now rewrite E0).
              ** rewrite IP in SP. cbn in SP.
                 eapply finish_stop; [exact MH|cbn; exact Hst|exact SP|left; discriminate|reflexivity].
           ++ cbn in SP. rewrite N.eqb_refl in SP. cbn in SP |- *.
              eapply finish_next; [exact MH|cbn; exact Hst|exact SP|reflexivity|cbn; exact Hst| |reflexivity].
              unfold Sim, W2; cbn. repeat split; auto; try discriminate.
        -- cbn in SP. rewrite IP in SP. cbn in SP.
           eapply finish_stop; [exact MH|cbn; exact Hst|exact SP|left; discriminate|reflexivity].
      * destruct (u_validate uj raw) as [[uv ue] u1]. cbn [negb andb]. destruct fin.
        -- cbn in SP. rewrite N.eqb_refl in SP. cbn in SP |- *.
           eapply finish_next; [exact MH|cbn; exact Hst|exact SP|reflexivity|cbn; exact Hst| |reflexivity].
           unfold Sim, W2; cbn. repeat split; auto; try discriminate.
        -- cbn in SP. rewrite N.eqb_refl in SP. cbn in SP |- *.
           eapply finish_next; [exact MH|cbn; exact Hst|exact SP|reflexivity|cbn; exact Hst| |reflexivity].
           unfold Sim, W2; cbn. repeat split; auto; try discriminate.
  - (* the buffer ends inside the payload *)
    replace (n <=? lenN r2) with false in SP by (symmetry; apply N.leb_gt; exact Hc).
    destruct r2 as [|x xr] eqn:Er2.
    + (* no payload octet at all: the header step was the last one *)
      replace (n =? 0) with false in MH by (symmetry; apply N.eqb_neq; unfold lenN in Hc; cbn in Hc; lia).
      cbn [orb nonempty] in MH.
      assert (Eraw : raw = []) by (unfold raw, unmask; destruct (masked && applyMask cf); reflexivity).
      rewrite Eraw.
      assert (G : exists s' e, Runs s s' e /\ judged e = ([], VMore)).
      { exists s4, []. split; [|reflexivity]. eapply runs_stop; [exact MH|left; discriminate]. }
      destruct comp; [rewrite d_nil|]; cbn [u_validate u_loop]; destruct text; cbn [negb andb]; try exact G;
        rewrite (Hu eq_refl), (Hnr eq_refl); exact G.
    + rewrite orb_true_r in MH.
      assert (Hpos : 0 < lenN (x :: xr)) by (unfold lenN; cbn [length]; lia).
      remember (x :: xr) as r2' eqn:Er2'. clear Er2' x xr.
      unfold sp in SP. rewrite PA in SP by (intros ->; lia). cbv zeta in SP. fold raw in SP.
      unfold on_frame_data, on_message_frame_data in SP. rewrite Hfc in SP.
      subst c m2 f. cbn [ms cn zon dec uon ust m_dec] in SP.
      assert (Hnn : (lenN r2' =? n) = false) by (apply N.eqb_neq; lia).
      destruct comp.
      * destruct (d_data cd d0 raw) as [d1 pl]. destruct text.
        -- rewrite (Hu eq_refl). destruct (u_validate u0 pl) as [[uv ue] u1]. destruct uv; cbn [negb andb].
           ++ cbn in SP. rewrite Hnn in SP. cbn in SP.
              eapply finish_stop; [exact MH|cbn; exact Hst|exact SP|left; discriminate|reflexivity].
           ++ cbn in SP. rewrite IP in SP. cbn in SP.
              eapply finish_stop; [exact MH|cbn; exact Hst|exact SP|left; discriminate|reflexivity].
        -- destruct (u_validate uj pl) as [[uv ue] u1]. cbn [negb andb].
           cbn in SP. rewrite Hnn in SP. cbn in SP.
           eapply finish_stop; [exact MH|cbn; exact Hst|exact SP|left; discriminate|reflexivity].
      * destruct text.
        -- rewrite (Hu eq_refl). destruct (u_validate u0 raw) as [[uv ue] u1]. destruct uv; cbn [negb andb].
           ++ cbn in SP. rewrite Hnn in SP. cbn in SP.
              eapply finish_stop; [exact MH|cbn; exact Hst|exact SP|left; discriminate|reflexivity].
           ++ cbn in SP. rewrite IP in SP. cbn in SP.
              eapply finish_stop; [exact MH|cbn; exact Hst|exact SP|left; discriminate|reflexivity].
        -- destruct (u_validate uj raw) as [[uv ue] u1]. cbn [negb andb].
           cbn in SP. rewrite Hnn in SP. cbn in SP.
           eapply finish_stop; [exact MH|cbn; exact Hst|exact SP|left; discriminate|reflexivity].
Qed.

(* ---- data frames ---- *)
Lemma frame_data (s : rstate) js b0 b1 r n r1 :
  Sim s js -> data D s = b0 :: b1 :: r -> b0 < 256 -> b1 < 256 ->
  rfc_header_bad cf (j_open D js) b0 b1 = false ->
  let fin := bit b0 7 in let rsv1 := bit b0 6 in
  let op := b0 mod 16 in let masked := bit b1 7 in let len7 := b1 mod 128 in let mlen := if masked then 4 else 0 in
  (if len7 <=? 125 then 0 else if len7 =? 126 then 2 else 8) + mlen <= lenN r ->
  rfc_length len7 r = LOk n r1 -> 8 <=? op = false ->
  let key := take mlen r1 in let r2 := drop mlen r1 in
  let complete := n <=? lenN r2 in
  let raw := unmask cf masked key (if complete then take n r2 else r2) in
  let rest := drop n r2 in
  match (let first := negb (j_open D js) in
         let comp := if first then pmc cf && rsv1 else j_comp D js in
         let text := if first then (op =? 1) && utf8validate cf else j_text D js in
         let isbin := if first then op =? 2 else j_bin D js in
         let total := (if first then 0 else j_total D js) + n in
         if rfc_too_big cf total n then FFail VTooBig else
         let d0 := if first && comp then d_start cd (j_dec D js) else j_dec D js in
         let '(d1, app) := if comp then d_data cd d0 raw else (d0, raw) in
         let '(uv, _, u1) := u_validate (if first then 0 else j_u D js) app in
         if text && negb uv then FFail VInvalidPayload
         else if negb complete then FMore
         else
           let acc := (if first then [] else j_acc D js) ++ app in
           if fin then
             if text && negb (u1 =? 0) then FFail VInvalidPayload
             else FNext [JMsg acc isbin]
                        (mkJ D false false false false [] 0 0 (if comp then d_end cd d1 else d1)) rest
           else FNext [] (mkJ D true text comp isbin acc (if text then u1 else 0) total d1) rest) : jframe D return Prop with
  | FNext evj js' rest' =>
      exists s2 e, (forall s3 e3, Runs s2 s3 e3 -> rest' <> [] -> Runs s s3 (e ++ e3)) /\ (rest' = [] -> Runs s s2 e) /\
                   Sim s2 js' /\ data D s2 = rest' /\ judged e = (evj, VMore)
  | FMore => exists s' e, Runs s s' e /\ judged e = ([], VMore)
  | FFail c => exists s' e, Runs s s' e /\ judged e = ([], VFail c)
  | FClose c rr => exists s' e, Runs s s' e /\ judged e = ([], VClose c rr)
  end.
Proof.
  intros HS Hd H0 H1 Hok fin rsv1 op masked len7 mlen Hlen ER Hctl key r2 complete raw rest.
  pose proof HS as [Hcur [Hst [Hnf [HW2 [Hdec [Hins Hfr]]]]]].
  pose proof (Sim_Wf _ _ HS) as HWf.
  pose proof (rules_of_ok _ _ _ Hok) as Ru.
  apply N.leb_gt in Hctl.
  (* rules: opcode, fragmentation, RSV *)
  assert (Rop : op = 0 \/ op = 1 \/ op = 2).
  { specialize (Ru HDataOpcode ltac:(cbn; auto 20)). unfold rfc_rule, rfc_rule_f, inr in Ru. fold op in Ru.
    apply andb_false_iff in Ru. destruct Ru as [Ru|Ru]; [apply N.leb_gt in Ru|apply N.leb_gt in Ru]; lia. }
  assert (Rfrag : (op =? 0) = j_open D js).
  { pose proof (Ru HContOutside ltac:(cbn; auto 20)) as A. pose proof (Ru HNonContInside ltac:(cbn; auto 20)) as B.
    unfold rfc_rule, rfc_rule_f in A, B. fold op in A, B.
    replace (8 <=? op) with false in B by (symmetry; apply N.leb_gt; lia). cbn [negb andb] in B.
    destruct (op =? 0), (j_open D js); cbn in *; congruence. }
  assert (Rrsv : bit b0 5 = false /\ bit b0 4 = false /\ (rsv1 = true -> pmc cf = true /\ j_open D js = false)).
  { pose proof (Ru HRsv ltac:(cbn; auto 20)) as A. pose proof (Ru HContCompressed ltac:(cbn; auto 20)) as B.
    unfold rfc_rule, rfc_rule_f in A, B. fold op rsv1 in A, B.
    replace (8 <=? op) with false in B by (symmetry; apply N.leb_gt; lia). cbn [negb andb] in B.
    destruct (bit b0 5), (bit b0 4), rsv1, (pmc cf), (j_open D js); cbn in *; try discriminate; repeat split; auto; congruence. }
  destruct Rrsv as [Rr2 [Rr3 Rr1]].
  destruct (fld b0 H0) as [_ [_ [_ [_ F5]]]]. fold rsv1 in F5. rewrite Rr2, Rr3 in F5. cbn [negb] in F5. rewrite !andb_true_r in F5.
  (* the header step *)
  assert (Hv : hdr_viols cf (inside D (ms D s)) b0 b1 = []) by (rewrite Hins; apply ok_no_viols; assumption).
  pose proof (model_header s b0 b1 r Hd H0 H1 Hcur Hst Hv) as MH.
  cbv zeta in MH. fold len7 masked mlen in MH. specialize (MH Hlen). rewrite ER in MH.
  fold key r2 op fin in MH.
  set (f := mkF op fin (hb_rsv b0) n masked key) in *.
  set (mk := if masked && (0 <? n) && applyMask cf then Some key else None) in *.
  assert (Hfc : fb_is_ctl (f_op f) = false) by (unfold fb_is_ctl; cbn [f_op f]; apply N.ltb_ge; lia).
  unfold on_frame_begin in MH. rewrite Hfc in MH. cbn [cn ms data cur mkey mptr cdata f_rsv f_op f_len f] in MH.
  unfold fb_rsv_is4, fb_is_text, fb_is_binary in MH. rewrite F5 in MH.
  (* everything concrete *)
  destruct s as [c m d cu mk0 mp cdt]. destruct c as [stc fl cl rc rr]. destruct m as [mi mz mu mus muv mue mb md mfd mt mde].
  destruct js as [jo jt jc jb ja ju jtot jd].
  cbn [cn ms data cur mkey mptr cdata st failed inside zon uon ust uval uend mbin mdata fdata mtotal dec
       j_open j_text j_comp j_bin j_acc j_u j_total j_dec] in *.
  subst cu fl mde mi d.
  unfold on_message_frame_begin, max_size_exceeded in MH.
  cbn [failed inside zon uon ust uval uend mbin mdata fdata mtotal dec m_inside m_zon m_uon m_utf8 m_mbin m_mdata m_fdata m_mtotal m_dec] in MH.
  unfold rfc_too_big. change ((0 <? maxMsg cf) && (maxMsg cf <? ?t)) with (mf_msg_limit (maxMsg cf) t).
  change ((0 <? maxFrame cf) && (maxFrame cf <? n)) with (mf_frame_limit (maxFrame cf) n).
  assert (TB : forall S4 ctl, step D cd cf {| cn := {| st := stc; failed := false; clean := cl; rcode := rc; rreason := rr |};
                                              ms := {| inside := jo; zon := mz; uon := mu; ust := mus; uval := muv; uend := mue;
                                                       mbin := mb; mdata := md; fdata := mfd; mtotal := mt; dec := jd |};
                                              data := b0 :: b1 :: r; cur := None; mkey := mk0; mptr := mp; cdata := cdt |} =
                (S4, [EFail code_message_too_big; EDrop true], ctl) -> st (cn D S4) = CLOSED ->
              exists s' e, Runs {| cn := {| st := stc; failed := false; clean := cl; rcode := rc; rreason := rr |};
                                  ms := {| inside := jo; zon := mz; uon := mu; ust := mus; uval := muv; uend := mue;
                                           mbin := mb; mdata := md; fdata := mfd; mtotal := mt; dec := jd |};
                                  data := b0 :: b1 :: r; cur := None; mkey := mk0; mptr := mp; cdata := cdt |} s' e /\
                           judged e = ([], VFail VTooBig)).
  { intros S4 ctl E Hcl. exists S4, [EFail code_message_too_big; EDrop true]. split; [|reflexivity].
    eapply runs_stop; [exact E|right; exact Hcl]. }
  assert (FC : fail_connection cf {| st := stc; failed := false; clean := cl; rcode := rc; rreason := rr |} code_message_too_big =
               (mkC CLOSED true false rc rr, [EFail code_message_too_big; EDrop true])) by (apply fail_fbd; exact Hst).
  destruct jo; cbn [negb andb] in *.
  - (* continuation frame of a message in progress *)
    destruct (Hfr eq_refl) as [-> [-> [-> [-> [-> Hu]]]]].
    cbn [failed inside zon uon ust uval uend mbin mdata fdata mtotal dec m_inside m_zon m_uon m_utf8 m_mbin m_mdata m_fdata m_mtotal m_dec] in MH.
    destruct (mf_msg_limit (maxMsg cf) (jtot + n)) eqn:L1; cbn [orb].
    { rewrite FC in MH. cbn in MH. eapply TB; [exact MH|reflexivity]. }
    destruct (mf_frame_limit (maxFrame cf) n) eqn:L2; cbn [orb].
    { rewrite FC in MH. cbn in MH. eapply TB; [exact MH|reflexivity]. }
    cbn in MH.
    eapply (data_tail _ stc cl rc rr jc jt jb mus ju muv mue ja (jtot + n) jd r2 op fin (hb_rsv b0) n masked key cdt Hst HWf Hctl MH).
    + intros E. symmetry. now apply Hu.
    + intros E. unfold W2 in HW2. cbn in HW2. destruct (HW2 E) as [_ [_ R]]. exact R.
  - (* first frame of a message *)
    clear Hfr.
    destruct (pmc cf && rsv1) eqn:Ec; destruct ((op =? 1) && utf8validate cf) eqn:Et;
      cbn [failed inside zon uon ust uval uend mbin mdata fdata mtotal dec m_inside m_zon m_uon m_utf8 m_mbin m_mdata m_fdata m_mtotal m_dec] in MH;
      (destruct (mf_msg_limit (maxMsg cf) (0 + n)) eqn:L1; cbn [orb];
       [rewrite FC in MH; cbn in MH; eapply TB; [exact MH|reflexivity]|]);
      (destruct (mf_frame_limit (maxFrame cf) n) eqn:L2; cbn [orb];
       [rewrite FC in MH; cbn in MH; eapply TB; [exact MH|reflexivity]|]);
      cbn in MH.
    + eapply (data_tail _ stc cl rc rr true true (op =? 2) 0 0 true true [] (0 + n) (d_start cd jd) r2 op fin (hb_rsv b0) n masked key cdt Hst HWf Hctl MH); reflexivity.
    + eapply (data_tail _ stc cl rc rr true false (op =? 2) mus 0 muv mue [] (0 + n) (d_start cd jd) r2 op fin (hb_rsv b0) n masked key cdt Hst HWf Hctl MH); discriminate.
    + eapply (data_tail _ stc cl rc rr false true (op =? 2) 0 0 true true [] (0 + n) jd r2 op fin (hb_rsv b0) n masked key cdt Hst HWf Hctl MH); reflexivity.
    + eapply (data_tail _ stc cl rc rr false false (op =? 2) mus 0 muv mue [] (0 + n) jd r2 op fin (hb_rsv b0) n masked key cdt Hst HWf Hctl MH); discriminate.
Qed.

(* ---- the header step on a violating / incomplete header ---- *)
Lemma model_header_bad (s : rstate) b0 b1 r v vs :
  data D s = b0 :: b1 :: r -> cur D s = None -> st (cn D s) <> CLOSED ->
  hdr_viols cf (inside D (ms D s)) b0 b1 = v :: vs ->
  step D cd cf s = (r_cn D s (mkC CLOSED true false (rcode (cn D s)) (rreason (cn D s))), [EFail code_protocol_error; EDrop true], Stop).
Proof.
  intros Hd Hcur Hst Hv. unfold step. rewrite Hcur. unfold step_header. rewrite Hd.
  replace (pd_have2 (lenN (b0 :: b1 :: r))) with true by (symmetry; apply N.leb_le; unfold lenN; cbn [length]; lia).
  cbn [negb nth]. rewrite Hv, (pv_all_fbd_open (cn D s) v vs Hst). reflexivity.
Qed.

Lemma model_header_need (s : rstate) b0 b1 r :
  data D s = b0 :: b1 :: r -> b1 < 256 -> cur D s = None ->
  hdr_viols cf (inside D (ms D s)) b0 b1 = [] ->
  let len7 := b1 mod 128 in let mlen := if bit b1 7 then 4 else 0 in
  lenN r < (if len7 <=? 125 then 0 else if len7 =? 126 then 2 else 8) + mlen ->
  step D cd cf s = (s, [], Stop).
Proof.
  intros Hd H1 Hcur Hv len7 mlen Hlt. destruct (fld b1 H1) as [_ [_ [G3 [G4 _]]]].
  assert (L7 : len7 < 128) by (apply N.mod_lt; discriminate).
  unfold step. rewrite Hcur. unfold step_header. rewrite Hd.
  replace (pd_have2 (lenN (b0 :: b1 :: r))) with true by (symmetry; apply N.leb_le; unfold lenN; cbn [length]; lia).
  cbn [negb nth]. rewrite Hv. cbn [pv_all]. rewrite G3, G4. fold len7 mlen.
  destruct (header_len_some len7 mlen L7) as [hl [Ehl Hhl]]. rewrite Ehl.
  assert (HlenN : lenN (b0 :: b1 :: r) = 2 + lenN r) by (unfold lenN; cbn [length]; lia).
  unfold pd_have_header. replace (hl <=? lenN (b0 :: b1 :: r)) with false.
  2:{ symmetry. apply N.leb_gt. rewrite HlenN, Hhl.
      destruct (N.ltb_spec len7 126), (N.leb_spec len7 125); try lia; destruct (N.eqb_spec len7 126); lia. }
  cbn [negb]. destruct s; reflexivity.
Qed.

Lemma frame_sim (s : rstate) js bs : Sim s js -> data D s = bs -> bytes_ok bs -> frame_ok s js bs.
Proof.
  intros HS Hd Hb. pose proof HS as [Hcur [Hst [Hnf [HW2 [Hdec [Hins Hfr]]]]]].
  unfold frame_ok.
  assert (Short : lenN bs < 2 -> exists s' e, Runs s s' e /\ judged e = ([], VMore)).
  { intros Hl. exists s, []. split; [|reflexivity].
    assert (St : step D cd cf s = (s, [], Stop)).
    { unfold step. rewrite Hcur. unfold step_header. rewrite Hd. unfold pd_have2.
      replace (2 <=? lenN bs) with false by (symmetry; apply N.leb_gt; exact Hl). reflexivity. }
    eapply runs_stop; [exact St|left; discriminate]. }
  destruct bs as [|b0 [|b1 r]]; [apply Short; unfold lenN; cbn; lia|apply Short; unfold lenN; cbn; lia|].
  assert (H0 : b0 < 256) by (inversion Hb; assumption).
  assert (H1 : b1 < 256) by (inversion Hb as [|? ? ? Hb']; inversion Hb'; assumption).
  unfold judge_frame.
  destruct (rfc_header_bad cf (j_open D js) b0 b1) eqn:Hok.
  - (* a header rule is broken *)
    pose proof (bad_viols _ _ _ H0 H1 Hok) as Hv. rewrite <- Hins in Hv.
    destruct (hdr_viols cf (inside D (ms D s)) b0 b1) as [|v vs] eqn:Ev; [congruence|].
    eexists; eexists. split; [eapply runs_stop; [apply (model_header_bad s b0 b1 r v vs Hd Hcur Hst Ev)|left; discriminate]|reflexivity].
  - assert (Hv : hdr_viols cf (inside D (ms D s)) b0 b1 = []) by (rewrite Hins; apply ok_no_viols; assumption).
    cbv zeta.
    destruct (N.ltb_spec (lenN r) ((if b1 mod 128 <=? 125 then 0 else if b1 mod 128 =? 126 then 2 else 8) + (if bit b1 7 then 4 else 0))) as [Hlt|Hge].
    + exists s, []. split; [|reflexivity]. eapply runs_stop; [apply (model_header_need s b0 b1 r Hd H1 Hcur Hv Hlt)|left; discriminate].
    + pose proof (model_header s b0 b1 r Hd H0 H1 Hcur Hst Hv) as MH. cbv zeta in MH. specialize (MH Hge).
      destruct (rfc_length (b1 mod 128) r) as [| |n r1] eqn:ER.
      * destruct MH.
      * destruct MH as [c1 [Hc1 MH]]. eexists; eexists.
        split; [eapply runs_stop; [exact MH|left; discriminate]|reflexivity].
      * clear MH. destruct (8 <=? b0 mod 16) eqn:Hctl.
        -- exact (frame_ctl s js b0 b1 r n r1 HS Hd H0 H1 Hok Hge ER Hctl).
        -- exact (frame_data s js b0 b1 r n r1 HS Hd H0 H1 Hok Hge ER Hctl).
Qed.

(* ---- what a judged frame leaves is a proper suffix of the stream ---- *)
Lemma rfc_length_rest len7 r n r1 : rfc_length len7 r = LOk n r1 -> exists k, r1 = skipn k r.
Proof.
  unfold rfc_length. destruct (len7 <=? 125); [intros E; inversion E; exists 0%nat; reflexivity|].
  destruct (len7 =? 126).
  - destruct (lenN r <? 2); [discriminate|]. destruct (be_val 0 (take 2 r) <? 126); [discriminate|].
    intros E; inversion E. eexists; reflexivity.
  - destruct (lenN r <? 8); [discriminate|]. destruct ((be_val 0 (take 8 r) <? 65536) || (2 ^ 63 <=? be_val 0 (take 8 r))); [discriminate|].
    intros E; inversion E. eexists; reflexivity.
Qed.

Lemma judge_frame_rest js bs evj js' rest :
  judge_frame D cd cf js bs = FNext evj js' rest -> exists k, rest = skipn (2 + k) bs.
Proof.
  unfold judge_frame. destruct bs as [|b0 [|b1 r]]; try discriminate.
  destruct (rfc_header_bad _ _ _ _); [discriminate|]. cbv zeta.
  destruct (lenN r <? _); [discriminate|].
  destruct (rfc_length (b1 mod 128) r) as [| |n r1] eqn:ER; try discriminate.
  destruct (rfc_length_rest _ _ _ _ ER) as [k1 ->].
  assert (G : exists k, drop n (drop (if bit b1 7 then 4 else 0) (skipn k1 r)) = skipn (2 + k) (b0 :: b1 :: r)).
  { unfold drop. exists (k1 + N.to_nat (if bit b1 7 then 4 else 0) + N.to_nat n)%nat. cbn [plus skipn].
    rewrite !skipn_plus. reflexivity. }
  destruct (8 <=? b0 mod 16).
  - destruct (negb _); [discriminate|]. destruct (b0 mod 16 =? 9); [intros E; inversion E; subst; exact G|].
    destruct (b0 mod 16 =? 10); [intros E; inversion E; subst; exact G|].
    destruct (unmask _ _ _ _) as [|c1 [|c2 reason]]; try discriminate.
    destruct (negb _); [discriminate|]. destruct reason; [discriminate|]. destruct (utf8_complete _); discriminate.
  - destruct (rfc_too_big _ _ _); [discriminate|].
    destruct (if (if negb (j_open D js) then pmc cf && bit b0 6 else j_comp D js) then _ else _) as [d1 app].
    destruct (u_validate _ app) as [[uv ue] u1].
    destruct (_ && negb uv); [discriminate|]. destruct (negb _); [discriminate|].
    destruct (bit b0 7).
    + destruct (_ && negb (u1 =? 0)); [discriminate|]. intros E; inversion E; subst; exact G.
    + intros E; inversion E; subst; exact G.
Qed.

Lemma bytes_ok_skipn k bs : bytes_ok bs -> bytes_ok (skipn k bs).
Proof.
  revert bs; induction k as [|k IH]; intros bs H; [exact H|]. destruct bs; [exact H|]. cbn. apply IH. now inversion H.
Qed.

(* ---- the run of a whole buffer is what the judge says ---- *)
Lemma sequence_runs n : forall (s : rstate) js bs, Sim s js -> data D s = bs -> bytes_ok bs ->
  forall res, judge D cd n cf js bs = Some res -> exists s' e, Runs s s' e /\ judged e = res.
Proof.
  induction n as [|n IH]; intros s js bs HS Hd Hb res H; [discriminate|]. cbn [judge] in H.
  pose proof (frame_sim s js bs HS Hd Hb) as F. unfold frame_ok in F.
  destruct (judge_frame D cd cf js bs) as [|c|c rr|evj js1 rest] eqn:JF.
  - inversion H; subst. exact F.
  - inversion H; subst. exact F.
  - inversion H; subst. exact F.
  - destruct F as [s2 [e [T1 [T2 [HS2 [Hd2 HJ]]]]]].
    destruct (judge D cd n cf js1 rest) as [[e2j v]|] eqn:J2; [|discriminate]. inversion H; subst res.
    destruct (judge_frame_rest _ _ _ _ _ JF) as [k Hk].
    assert (Hb2 : bytes_ok rest) by (rewrite Hk; now apply bytes_ok_skipn).
    destruct (IH s2 js1 rest HS2 Hd2 Hb2 _ J2) as [s' [e' [R' J']]].
    destruct rest as [|x xr] eqn:Er.
    + (* nothing left: the judge can only say VMore *)
      destruct n; [discriminate|]. cbn [judge judge_frame] in J2. inversion J2; subst.
      exists s2, e. split; [now apply T2|]. rewrite app_nil_r. exact HJ.
    + exists s', (e ++ e'). split; [apply T1; [exact R'|discriminate]|].
      rewrite judged_app, HJ, J'. reflexivity.
Qed.

Lemma judge_fuel n : forall js bs, (length bs < n)%nat -> exists res, judge D cd n cf js bs = Some res.
Proof.
  induction n as [|n IH]; intros js bs Hl; [lia|]. cbn [judge].
  destruct (judge_frame D cd cf js bs) as [|c|c rr|evj js1 rest] eqn:JF; try (eexists; reflexivity).
  destruct (judge_frame_rest _ _ _ _ _ JF) as [k Hk].
  assert (Hl2 : (length rest < n)%nat).
  { rewrite Hk, skipn_length. destruct bs as [|b0 [|b1 r]]; cbn [judge_frame] in JF; try discriminate. cbn [length] in *. lia. }
  destruct (IH js1 rest Hl2) as [[e2 v] E]. rewrite E. eexists; reflexivity.
Qed.

(* C02_sequence (failByDrop = true): one read of a whole stream, from the state after the handshake *)
Theorem sequence_failbydrop p d0 bs : p <> CLOSED -> bytes_ok bs ->
  exists s' evs res,
    feed D cd cf (init_state D p d0) bs = Done D s' evs /\
    rfc_judge D cd cf d0 bs = Some res /\ judged evs = res.
Proof.
  intros Hp Hb. unfold rfc_judge.
  destruct (judge_fuel (S (length bs)) (j_init D d0) bs ltac:(lia)) as [res J].
  set (s0 := push D (init_state D p d0) bs).
  assert (HS : Sim s0 (j_init D d0)) by (apply (Sim_same (init_state D p d0)); [reflexivity|reflexivity|reflexivity|now apply Sim_init]).
  destruct (sequence_runs _ s0 (j_init D d0) bs HS eq_refl Hb res J) as [s' [e [R HJ]]].
  exists s', e, res. split; [|split; [exact J|exact HJ]].
  apply (feed_of_runs D cd d_nil cf FBD); [apply Wf_init|cbn; exact Hp|exact R].
Qed.

End Seq.
